//go:build verif && verif_h_refscion

package main

import (
	"log/slog"

	"example.com/scion-time/core/client"
	"example.com/scion-time/net/scion"
	"example.com/scion-time/net/udp"

	"verif.local/sim/worlds"
)

func init() {
	worlds.Root.NewNTPReferenceClockSCION = func(log *slog.Logger, localAddr, remoteAddr udp.UDPAddr, dscp uint8, pather *scion.Pather) (client.ReferenceClock, []*client.SCIONClient) {
		c := newNTPReferenceClockSCION(log, "", localAddr, remoteAddr, dscp, nil, "", false)
		c.pather = pather
		return c, c.ntpcs[:]
	}
}
