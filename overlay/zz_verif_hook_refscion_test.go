//go:build verif && verif_h_refscion

package main

import (
	"log/slog"
	"reflect"
	"unsafe"

	"example.com/scion-time/core/client"
	"example.com/scion-time/net/scion"
	"example.com/scion-time/net/udp"

	"verif.local/sim/worlds"
)

func init() {
	worlds.Root.NewNTPReferenceClockSCION = func(log *slog.Logger, localAddr, remoteAddr udp.UDPAddr, dscp uint8, pather *scion.Pather) (client.ReferenceClock, []*client.SCIONClient) {
		c := newNTPReferenceClockSCION(log, "", localAddr, remoteAddr, dscp, nil, "", false)
		// the clock's pather and clients are found by their types, not by field names, so
		// that renaming them does not take the wired variant of the world away
		var cs []*client.SCIONClient
		v := reflect.ValueOf(c).Elem()
		for i := 0; i < v.NumField(); i++ {
			f := v.Field(i)
			f = reflect.NewAt(f.Type(), unsafe.Pointer(f.UnsafeAddr())).Elem()
			switch {
			case f.Type() == reflect.TypeOf(pather):
				f.Set(reflect.ValueOf(pather))
			case (f.Kind() == reflect.Array || f.Kind() == reflect.Slice) && f.Type().Elem() == reflect.TypeOf((*client.SCIONClient)(nil)):
				for j := 0; j < f.Len(); j++ {
					cs = append(cs, f.Index(j).Interface().(*client.SCIONClient))
				}
			}
		}
		return c, cs
	}
	// the clients of a clock as the service builds them for a given list of auth modes
	worlds.Root.SCIONClockClients = func(log *slog.Logger, localAddr, remoteAddr udp.UDPAddr, authModes []string, ntskeServer string) []*client.SCIONClient {
		c := newNTPReferenceClockSCION(log, "", localAddr, remoteAddr, 0, authModes, ntskeServer, true)
		var cs []*client.SCIONClient
		v := reflect.ValueOf(c).Elem()
		for i := 0; i < v.NumField(); i++ {
			f := v.Field(i)
			f = reflect.NewAt(f.Type(), unsafe.Pointer(f.UnsafeAddr())).Elem()
			if (f.Kind() == reflect.Array || f.Kind() == reflect.Slice) && f.Type().Elem() == reflect.TypeOf((*client.SCIONClient)(nil)) {
				for j := 0; j < f.Len(); j++ {
					cs = append(cs, f.Index(j).Interface().(*client.SCIONClient))
				}
			}
		}
		return cs
	}
}
