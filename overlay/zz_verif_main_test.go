//go:build verif

// crypto APIs must not consume a random extra byte from the seeded test reader
// (crypto/internal/rand.CustomReader calls MaybeReadByte under the old default).
//go:debug cryptocustomrand=0

package main

import (
	"log/slog"
	"net"
	"testing"

	"example.com/scion-time/core/client"
	"example.com/scion-time/core/sync"
	"example.com/scion-time/net/scion"
	"example.com/scion-time/net/udp"

	"verif.local/sim/simcore"
	"verif.local/sim/worlds"
)

// TestVerifSim is the single entry point of the simulator binary. The hooks give
// the worlds the repository's own wiring functions (package main).
func TestVerifSim(t *testing.T) {
	worlds.Root = worlds.RootHooks{
		ConfigureIPClientNTS: configureIPClientNTS,
		NewNTPReferenceClockIP: func(log *slog.Logger, localAddr, remoteAddr *net.UDPAddr, dscp uint8, authModes []string,
			ntskeServer string, insecureSkipVerify bool) client.ReferenceClock {
			return newNTPReferenceClockIP(log, localAddr, remoteAddr, dscp, authModes, ntskeServer, insecureSkipVerify)
		},
		DefaultSyncConfig: func() sync.Config { return syncConfig(svcConfig{}) },
		NewNTPReferenceClockSCION: func(log *slog.Logger, localAddr, remoteAddr udp.UDPAddr, dscp uint8, pather *scion.Pather) (client.ReferenceClock, []*client.SCIONClient) {
			c := newNTPReferenceClockSCION(log, "", localAddr, remoteAddr, dscp, nil, "", false)
			c.pather = pather
			return c, c.ntpcs[:]
		},
		SyncConfigFrom: func(refImpact, peerImpact, cutoffSec, timeoutSec, intervalSec float64) sync.Config {
			return syncConfig(svcConfig{ReferenceClockImpact: refImpact, PeerClockImpact: peerImpact, PeerClockCutoff: cutoffSec,
				SyncTimeout: timeoutSec, SyncInterval: intervalSec})
		},
	}
	simcore.WorkerMain(t)
}
