//go:build verif

package main

import (
	"testing"

	"verif.local/sim/simcore"
	"verif.local/sim/worlds"
)

// TestVerifSim is the single entry point of the simulator binary.
func TestVerifSim(t *testing.T) {
	worlds.Root = worlds.RootHooks{}
	simcore.WorkerMain(t)
}
