//go:build verif

// crypto APIs must not consume a random extra byte from the seeded test reader
// (crypto/internal/rand.CustomReader calls MaybeReadByte under the old default).
//go:debug cryptocustomrand=0

package main

import (
	"testing"

	"verif.local/sim/simcore"
	_ "verif.local/sim/worlds" // registers the worlds
)

// TestVerifSim is the single entry point of the simulator binary. The repository's own
// wiring functions (package main) reach the worlds through the hook files next to this
// one, each under its own build tag, so that a tree in which one of those functions was
// renamed or re-shaped still yields a simulator - without the runs that need that hook.
func TestVerifSim(t *testing.T) {
	simcore.WorkerMain(t)
}
