//go:build verif

// crypto APIs must not consume a random extra byte from the seeded test reader
// (crypto/internal/rand.CustomReader calls MaybeReadByte under the old default).
//go:debug cryptocustomrand=0

package main

import (
	"log/slog"
	"net"
	"testing"

	"example.com/scion-time/core/client"
	"example.com/scion-time/core/sync"

	"verif.local/sim/simcore"
	"verif.local/sim/worlds"
)

// TestVerifSim is the single entry point of the simulator binary. The hooks give
// the worlds the repository's own wiring functions (package main).
func TestVerifSim(t *testing.T) {
	worlds.Root = worlds.RootHooks{
		ConfigureIPClientNTS: configureIPClientNTS,
		NewNTPReferenceClockIP: func(log *slog.Logger, localAddr, remoteAddr *net.UDPAddr, dscp uint8, authModes []string,
			ntskeServer string, insecureSkipVerify bool) client.ReferenceClock {
			return newNTPReferenceClockIP(log, localAddr, remoteAddr, dscp, authModes, ntskeServer, insecureSkipVerify)
		},
		DefaultSyncConfig: func() sync.Config { return syncConfig(svcConfig{}) },
	}
	simcore.WorkerMain(t)
}
