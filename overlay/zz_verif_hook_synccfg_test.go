//go:build verif && verif_h_synccfg

package main

import (
	"example.com/scion-time/core/sync"

	"verif.local/sim/worlds"
)

func init() {
	worlds.Root.DefaultSyncConfig = func() sync.Config { return syncConfig(svcConfig{}) }
	worlds.Root.SyncConfigFrom = func(refImpact, peerImpact, cutoffSec, timeoutSec, intervalSec float64) sync.Config {
		return syncConfig(svcConfig{ReferenceClockImpact: refImpact, PeerClockImpact: peerImpact, PeerClockCutoff: cutoffSec,
			SyncTimeout: timeoutSec, SyncInterval: intervalSec})
	}
}
