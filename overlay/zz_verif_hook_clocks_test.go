//go:build verif && verif_h_clocks

package main

import (
	"github.com/scionproto/scion/pkg/snet"

	"verif.local/sim/worlds"
)

func init() {
	// How the service sorts its configured sources into reference clocks and peers
	// (createClocks, without a SCION daemon: nothing is contacted).
	worlds.Root.ClassifySources = func(refs, peers []string, local string) (nref, npeer int) {
		la, err := snet.ParseUDPAddr(local)
		if err != nil {
			panic(err)
		}
		r, p := createClocks(svcConfig{NTPReferenceClocks: refs, SCIONPeers: peers}, la, worlds.QuietLog())
		return len(r), len(p)
	}
}
