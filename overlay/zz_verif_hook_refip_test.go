//go:build verif && verif_h_refip

package main

import (
	"log/slog"
	"net"

	"example.com/scion-time/core/client"

	"verif.local/sim/worlds"
)

func init() {
	worlds.Root.NewNTPReferenceClockIP = func(log *slog.Logger, localAddr, remoteAddr *net.UDPAddr, dscp uint8, authModes []string,
		ntskeServer string, insecureSkipVerify bool) client.ReferenceClock {
		return newNTPReferenceClockIP(log, localAddr, remoteAddr, dscp, authModes, ntskeServer, insecureSkipVerify)
	}
}
