//go:build verif

package ntske

// VerifData exposes the fetcher's cached key-exchange data (read only).
func (f *Fetcher) VerifData() Data { return f.data }

// VerifPoolLen is the number of unused cookies in the client-side pool.
func (f *Fetcher) VerifPoolLen() int { return len(f.data.Cookie) }

// VerifKeyCount is the number of keys the provider currently holds.
func (p *Provider) VerifKeyCount() int { return len(p.keys) }

// VerifForget drops everything the fetcher holds, as a restart of the client process does.
func (f *Fetcher) VerifForget() { f.data = Data{} }
