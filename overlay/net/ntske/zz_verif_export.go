//go:build verif

package ntske

// VerifData exposes the fetcher's cached key-exchange data (read only).
func (f *Fetcher) VerifData() Data { return f.data }

// VerifPoolLen is the number of unused cookies in the client-side pool.
func (f *Fetcher) VerifPoolLen() int { return len(f.data.Cookie) }

// VerifKeyCount is the number of keys the provider currently holds.
func (p *Provider) VerifKeyCount() int { return len(p.keys) }

// VerifForget drops everything the fetcher holds, as a restart of the client process does.
func (f *Fetcher) VerifForget() { f.data = Data{} }

// VerifRestart puts the provider into the state of a freshly started server process: the keys
// it held are gone (nothing of them is durable), a new first key is generated.
func (p *Provider) VerifRestart() {
	q := NewProvider()
	p.mu.Lock()
	defer p.mu.Unlock()
	p.keys, p.currentID, p.generatedAt = q.keys, q.currentID, q.generatedAt
}
