//go:build verif

package scion

import (
	"log/slog"

	"github.com/scionproto/scion/pkg/addr"
	"github.com/scionproto/scion/pkg/snet"
)

// VerifNewPather makes a Pather that is not fed by a SCION daemon: the simulator sets
// the paths it offers.
func VerifNewPather(log *slog.Logger, localIA addr.IA) *Pather {
	return &Pather{log: log, localIA: localIA, paths: map[addr.IA][]snet.Path{}}
}

// VerifSetPaths replaces the paths offered towards dst (what a daemon refresh does).
func (p *Pather) VerifSetPaths(dst addr.IA, paths []snet.Path) {
	p.mu.Lock()
	defer p.mu.Unlock()
	p.paths[dst] = append([]snet.Path(nil), paths...)
}
