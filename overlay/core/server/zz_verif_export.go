//go:build verif

package server

// Export shim added through the build overlay only (never part of /repo).

import (
	"context"
	"crypto/tls"
	"log/slog"
	"net"
	"time"

	"example.com/scion-time/net/ntp"
	"example.com/scion-time/net/ntske"
	"example.com/scion-time/net/scion"

	"verif.local/sim/simnet"
	"verif.local/sim/simsync"
)

// tssCapV replaces the uses of the constant tssCap (see simbuild) so that the
// eviction logic can also be run at small capacities.
var tssCapV = tssCap

func VerifTSSCap() int     { return tssCap }
func VerifSetTSSCap(n int) { tssCapV = n }
func VerifTSSItemCap() int { return tssItemCap }

// VerifResetTSS empties the timestamp store (between runs).
func VerifResetTSS() {
	tss = make(map[string]*tssItem)
	tssQ = make(tssQueue, 0, 64)
	tssCapV = tssCap
}

type VerifTSSEntry struct{ Rxt, Txt ntp.Time64 }

type VerifTSSItem struct {
	Key     string
	Entries []VerifTSSEntry
	Qval    ntp.Time64
	Qidx    int
	InMap   bool // tss[Key] points to this very item
}

// VerifSnapshotTSS copies the store: the heap array in order, and the map size.
// It does not take tssMu: it is called by the scheduler when no goroutine runs.
func VerifSnapshotTSS() (heap []VerifTSSItem, mapLen int) {
	heap = make([]VerifTSSItem, len(tssQ))
	for i, it := range tssQ {
		if it == nil {
			// transient state inside a heap operation of a goroutine that is parked at a
			// yield (only seen by snapshots taken without the mutex)
			heap[i] = VerifTSSItem{Key: "<nil>", Qidx: -1}
			continue
		}
		v := VerifTSSItem{Key: it.key, Qval: it.qval, Qidx: it.qidx}
		for j := 0; j < it.len && j < len(it.buf); j++ {
			v.Entries = append(v.Entries, VerifTSSEntry{it.buf[j].rxt, it.buf[j].txt})
		}
		if it.len > len(it.buf) || it.len < 0 {
			v.Entries = nil
			v.Qidx = -1000 - it.len
		}
		v.InMap = tss[it.key] == it
		heap[i] = v
	}
	return heap, len(tss)
}

// VerifClientEntries returns the entries on record for one client.
func VerifClientEntries(key string) []VerifTSSEntry {
	it, ok := tss[key]
	if !ok {
		return nil
	}
	var es []VerifTSSEntry
	for j := 0; j < it.len && j < len(it.buf); j++ {
		es = append(es, VerifTSSEntry{it.buf[j].rxt, it.buf[j].txt})
	}
	return es
}

func VerifHandleRequest(clientID string, req *ntp.Packet, rxt, txt *time.Time, resp *ntp.Packet) {
	handleRequest(clientID, req, rxt, txt, resp)
}

func VerifUpdateTXTimestamp(clientID string, rxt time.Time, txt *time.Time) {
	updateTXTimestamp(clientID, rxt, txt)
}

type VerifIPServerMetrics = ipServerMetrics
type VerifSCIONServerMetrics = scionServerMetrics

func VerifNewIPServerMetrics() *ipServerMetrics       { return newIPServerMetrics() }
func VerifNewSCIONServerMetrics() *scionServerMetrics { return newSCIONServerMetrics() }

func VerifRunIPServer(ctx context.Context, log *slog.Logger, m *ipServerMetrics,
	conn *simnet.UDPConn, iface string, dscp uint8, provider *ntske.Provider) {
	runIPServer(ctx, log, m, conn, iface, dscp, provider)
}

func VerifRunSCIONServer(ctx context.Context, log *slog.Logger, m *scionServerMetrics,
	conn *simnet.UDPConn, iface string, localHostPort int, dscp uint8,
	fetcher *scion.Fetcher, provider *ntske.Provider) {
	runSCIONServer(ctx, log, m, conn, iface, localHostPort, dscp, fetcher, provider)
}

func VerifRunCSPTPServerIP(ctx context.Context, log *slog.Logger,
	conn *simnet.UDPConn, iface string, localHostPort int, dscp uint8) {
	runCSPTPServerIP(ctx, log, &udpConn{c: conn}, iface, localHostPort, dscp)
}

func VerifHandleKeyExchangeTLS(ctx context.Context, log *slog.Logger, conn *tls.Conn,
	localPort int, provider *ntske.Provider) {
	handleKeyExchangeTLS(ctx, log, conn, localPort, provider)
}

func VerifRunNTSKEServerTLS(ctx context.Context, log *slog.Logger,
	listener net.Listener, localPort int, provider *ntske.Provider) {
	runNTSKEServerTLS(ctx, log, listener, localPort, provider)
}

// VerifNewNTSKEMsg is set by zz_verif_opt_kemsg.go (its own build tag): when the tree no
// longer has newNTSKEMsg in the expected shape the simulator is built without it and the
// worlds use the scripted message only.
var VerifNewNTSKEMsg func(ctx context.Context, log *slog.Logger, localIP net.IP, localPort int,
	data *ntske.Data, provider *ntske.Provider) (ntske.ExchangeMsg, error)

// VerifTSSMuHeld reports (and clears) a timestamp-store mutex left locked by a
// goroutine that was unwound; used by the harness between runs.
func VerifTSSMuHeld() bool {
	if tssMu.TryLock() {
		tssMu.Unlock()
		return false
	}
	return true
}

// VerifTSSMuReset replaces the store mutex by a fresh one (between runs: a run that
// was torn down while a goroutine of a modified tree held it must not poison the next).
func VerifTSSMuReset() { tssMu = simsync.Mutex{} }

// VerifSnapshotTSSLen returns the sizes of the heap and of the map without copying.
func VerifSnapshotTSSLen() (heapLen, mapLen int) { return len(tssQ), len(tss) }
