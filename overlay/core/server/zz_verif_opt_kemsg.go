//go:build verif && verif_o_kemsg

package server

import (
	"context"
	"log/slog"
	"net"

	"example.com/scion-time/net/ntske"
)

func init() {
	VerifNewNTSKEMsg = func(ctx context.Context, log *slog.Logger, localIP net.IP, localPort int,
		data *ntske.Data, provider *ntske.Provider) (ntske.ExchangeMsg, error) {
		return newNTSKEMsg(ctx, log, localIP, localPort, data, provider)
	}
}
