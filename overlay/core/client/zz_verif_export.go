//go:build verif

package client

// Export shim added through the build overlay only (never part of /repo).

import (
	"context"
	"net"
	"time"

	"github.com/scionproto/scion/pkg/snet"

	"example.com/scion-time/net/udp"
)

// VerifMeasureSCION runs one SCION exchange on the calling goroutine (the public
// wrapper starts its own goroutines, whose panics cannot be attributed).
func (c *SCIONClient) VerifMeasureSCION(ctx context.Context, localAddr, remoteAddr udp.UDPAddr, path snet.Path) (time.Time, time.Duration, error) {
	return c.measureClockOffsetSCION(ctx, scionMetrics.Load(), localAddr, remoteAddr, path)
}

// VerifMeasureIP runs one IP exchange on the calling goroutine.
func (c *IPClient) VerifMeasureIP(ctx context.Context, localAddr, remoteAddr *net.UDPAddr) (time.Time, time.Duration, error) {
	return c.measureClockOffsetIP(ctx, ipMetrics.Load(), localAddr, remoteAddr)
}

// VerifSCIONPrevState is set by zz_verif_opt_prevstate.go when the tree has the fields.
var VerifSCIONPrevState func(c *SCIONClient) (reference, path string, interleaved bool)
