//go:build verif && verif_o_prevstate

package client

// Optional export (own build tag, dropped when the tree's shape differs): the raw
// record a SCION client keeps of its previous exchange, so that C15's oracle does not
// have to ask the client's own InInterleavedMode() what it should have done.
func init() {
	VerifSCIONPrevState = func(c *SCIONClient) (reference, path string, interleaved bool) {
		return c.prev.reference, c.prev.path, c.prev.interleaved
	}
}
