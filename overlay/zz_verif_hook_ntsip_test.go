//go:build verif && verif_h_ntsip

package main

import "verif.local/sim/worlds"

func init() { worlds.Root.ConfigureIPClientNTS = configureIPClientNTS }
