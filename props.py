# Per-property configuration of ./check: budgets, run counts, evidence texts.

REAL_COMMON = ["base/timemath", "core/measurements", "core/timebase"]
STUBS_COMMON = {
    "system clock / adjtimex": "simclock behind timebase.SystemClock (stub)",
    "goroutine scheduling, timers": "testing/synctest bubble + seeded release-one-operation scheduler (simulator)",
}

PROPS = {
    "C12": {
        "level": "exploration",
        "budget": {"quick": 40, "thorough": 600},
        "runs": {"quick": 20000, "thorough": 1500000},
        "rule": "one run = 1..8 concurrent callers x 4..31 scripted Current()/Get(id) calls on the real ntske.Provider over up to "
                "~30 virtual days (gaps drawn around 24h/2d/3d boundaries), statement-level yields inside the Provider methods in 3/4 of "
                "the runs; non-trivial = at least two distinct keys were seen and at least one Get hit; distinct = distinct event-log hash",
        "required_probes": ["current-generated", "current-reused", "get-hit", "get-expired", "get-unknown"],
        "components": {"real": ["net/ntske Provider (Current, Get, generateNext)", "crypto/rand via the process RNG"],
                       "stub": STUBS_COMMON},
        "assumptions": ["time.Now inside the provider is the bubble's virtual clock",
                        "sync.Mutex in provider.go is replaced by simsync.Mutex (same method set) at build time",
                        "interleavings are explored at statement granularity, not inside expressions"],
    },
    "C16": {
        "level": "exploration",
        "budget": {"quick": 40, "thorough": 600},
        "runs": {"quick": 20000, "thorough": 1500000},
        "rule": "one run = one real ReferenceClockClient.MeasureClockOffsets call with a context deadline in {0,1ns,1ms,500ms,3s} over 0..8 scripted "
                "clocks (success/error x before / 1ns before / at / 1ns after / after the deadline / on cancellation / never until released), "
                "0..3 overlapping second collections, optionally a follow-up collection on the same collector; non-trivial = at least one clock; "
                "distinct = distinct event-log hash",
        "required_probes": ["returned-at-deadline", "returned-early", "overlap-refused", "second-round", "partial-round"],
        "components": {"real": ["core/client ReferenceClockClient.MeasureClockOffsets, collectMeasurements", "context.WithTimeout timers (raw, virtual time)"],
                       "stub": dict(STUBS_COMMON, **{"reference clocks": "scripted client.ReferenceClock implementations"})},
        "assumptions": ["goroutine quiescence is measured with runtime.NumGoroutine against a baseline taken inside the bubble"],
    },
}

NOT_APPLICABLE = {
    "C02": "pure function of its input slice (no schedule, clock, fault or I/O): not a simulation target; its schedule-facing consequence (order independence of the combined result) is part of the C01/C15/C16 oracles",
    "C04": "pure function of two time values (no schedule, clock, fault or interleaving); worlds placed across the 2036 rollover use it inside C03 but the for-all-nanoseconds statement is enumeration of a function",
    "C18": "pure integer/float arithmetic on conversion helpers; nothing for a scheduler or fault injector to decide",
}

# Properties that the design claims but whose world is not built yet (kept current).
NOT_YET = {p: "designed (DESIGN.md section 3) but the simulated world is not built yet; not claimed until its check runs"
           for p in ["C01", "C03", "C05", "C06", "C07", "C08", "C09", "C10", "C11", "C13", "C14", "C15", "C17", "C19", "C20"]}

PROPS["C12"].update(
    level_text="seeded exploration of call histories and statement-level interleavings of the real Provider under a virtual clock over weeks of virtual time; per-call invariants from the statement plus a porcupine linearizability check against a permissive model. Evidence, not proof.",
    level_note="trusts testing/synctest's fake clock, the simulator-aware mutex substituted for sync.Mutex, and that interleavings finer than statements do not matter; constants (24h, 3d, 2d) are taken from the property statement",
    technique="deterministic simulation: seeded scheduler + virtual clock, per-operation invariants, porcupine linearizability on recorded histories")
PROPS["C16"].update(
    level_text="seeded exploration of completion times around the deadline, success/error outcomes, release orders, select choices between a pending result and cancellation (the select in collectMeasurements is rewritten into a scheduler decision), slow-collector faults, overlapping and follow-up collections; oracles on return time, result prefix, refusal of overlap and goroutine quiescence. Evidence, not proof.",
    level_note="trusts the simulator's substitution of the receive-only select by simsync.Select (same semantics outside the simulator) and of context deadlines by scheduler events; goroutine leaks are judged from stack dumps of the run's bubble",
    technique="deterministic simulation: seeded scheduler with controlled select choice and virtual deadlines; invariants on return instant, result slice and goroutine quiescence")
