# Per-property configuration of ./check: budgets, run counts, evidence texts.

REAL_COMMON = ["base/timemath", "core/measurements", "core/timebase"]
STUBS_COMMON = {
    "system clock / adjtimex": "simclock behind timebase.SystemClock (stub)",
    "goroutine scheduling, timers": "testing/synctest bubble + seeded release-one-operation scheduler (simulator)",
}

PROPS = {
    "C03": {
        "level": "exploration",
        "budget": {"quick": 80, "thorough": 900},
        "runs": {"quick": 12000, "thorough": 400000},
        "rule": "one run = 5..40 MeasureClockOffsetIP calls (each up to 3 attempts) of the real IPClient (interleaved mode on in 2/3 of the runs, recording filter) against 1..8 real "
                "runIPServer listeners sharing the real timestamp store, gaps 10 ms..10 s (both sides of the 3 s interleave window), server clock offset from 0 to +-30 years with skew up to "
                "+-100 ppm and steps between exchanges, worlds placed just before the 2036 era rollover, per-direction latency 0..21 ms plus long delays up to 2 s, drop/duplicate up to 30 %, "
                "server-side missing/late kernel timestamps, optional ephemeral port reuse; non-trivial = at least two accepted exchanges were checked against ground truth; distinct = distinct event-log hash",
        "required_probes": ["bound-checked", "interleaved-accepted", "basic-reply-to-interleaved-request", "measurement-failed", "near-era", "excluded-clock-step-inside-exchange", "scion-bound-checked", "scion-interleaved-accepted", "forwarded-without-timestamp", "client-kernel-tx-stamp-missing", "returned-offset-checked", "interleaved-request", "receive-timestamp-reused-for-client-address"],
        "components": {"real": ["core/client IPClient, MeasureClockOffsetIP", "core/server runIPServer, handleRequest, updateTXTimestamp", "net/udp (cmsg parsers, ReadTXTimestamp)", "net/ntp"],
                       "stub": dict(STUBS_COMMON, **{"kernel UDP stack": "simnet (sockets, SO_REUSEPORT group, control messages, error queue)"})},
        "assumptions": ["rounding allowance 16 ns (two truncating 2^-32 s conversions per timestamp and up to eight 1 ns receive-timestamp bumps)",
                        "the client's clock is the clock its context deadlines use (offset 0); the server clock carries the offset",
                        "exchanges during which the server clock stepped are excluded from the bound (counted as probe excluded-clock-step-inside-exchange)",
                        "client-side kernel timestamp faults are outside the property's quantifier and are not injected here",
                        "every 4th run is the SCION half: real SCIONClient against real runSCIONServer listeners through a relay router, optionally through the real end-host forwarder, same ground-truth oracle with datagrams followed hop by hop"],
    },
    "C05": {
        "level": "exploration",
        "budget": {"quick": 80, "thorough": 900},
        "runs": {"quick": 5000, "thorough": 500000},
        "rule": "one run = 4..23 measurements of the real IPClient (basic or interleaved mode; with NTS over the real key exchange in 1/3 of the runs) against real listeners while an attacker that sees each request "
                "delivers 1..2 crafted datagrams before the genuine response (withheld in 1/4 of the attacked exchanges): arbitrary bytes, the genuine response with LI / version / mode / stratum / origin / receive / transmit changed, "
                "origin zeroed, transmit before receive, another source address or port, replays of earlier responses, forged responses from another source, the request reflected, NTS fields stripped or unique identifier changed; "
                "every 4th run is the SCION half: the real SCIONClient against real runSCIONServer listeners through a relay router, with 1..3 crafted SCION packets per attacked exchange (the genuine response with another source "
                "ISD-AS or host, another destination ISD-AS or host, source and destination swapped, NTP fields changed, truncated, replays, the reflected request, forged responses from another AS, random bytes), so that the single retry is regularly used up before the packet of interest arrives; "
                "non-trivial = at least one crafted datagram and two measurements; distinct = distinct event-log hash",
        "required_probes": ["clean-exchange", "succeeded-under-attack", "measurement-failed", "scion-succeeded-under-attack", "scion-nts", "scion-nts-resealed", "provenance-checked", "crafted-but-valid-accepted", "nts-enabled-on-every-wired-client"],
        "components": {"real": ["core/client IPClient and SCIONClient receive loops", "net/ntp ValidateResponseMetadata/Timestamps", "net/nts DecodePacket/ProcessResponse", "core/server runIPServer, runSCIONServer"],
                       "stub": dict(STUBS_COMMON, **{"kernel UDP": "simnet", "attacker": "scripted injector"})},
        "assumptions": ["'comes from the queried server' is judged on the source address (a reply may come from any port of that address)",
                        "the SCION half runs with NTS in 1/3 of its runs (key exchange over TLS on simulated TCP, not QUIC) and without DRKey authentication (C13 covers the latter)"],
    },
    "C06": {
        "level": "exploration",
        "budget": {"quick": 60, "thorough": 900},
        "runs": {"quick": 5000, "thorough": 1500000},
        "rule": "one run = 1..8 simulated callers x 6..45 (handleRequest, updateTXTimestamp) pairs on the real timestamp store through the export shim, statement-level yields inside both functions "
                "and the heap methods plus the simulator-aware mutex in 4/5 of the multi-caller runs, store capacity 2..16 (same eviction code as at 2^20), 1..5 recurring clients plus floods of one-shot clients; "
                "requests crafted against what is on record: interleaved requests naming a recorded / never issued / other client's origin, equal receive and transmit fields, receive times colliding with "
                "recorded ones, decreasing and repeated, clock readings before / at / after the receive time; kernel transmit timestamps present, equal to or earlier than the receive time, or missing; "
                "non-trivial = at least 4 requests served; distinct = distinct event-log hash",
        "components": {"real": ["core/server handleRequest, updateTXTimestamp, tssQueue (container/heap)", "net/ntp Time64"],
                       "thorough_tier_extra": "run 0 of a thorough batch drives the store at the code's own capacity: 2^20 + 50000 distinct clients, asserting the statement's 2^20, eviction of the oldest and stateless service of older requests",
                       "stub": dict(STUBS_COMMON, **{"listeners": "simulated callers (this check drives the two functions directly; the listeners themselves run in C03/C09)",
                                                     "sync.Mutex in server.go": "simsync.Mutex (parks in the scheduler)"})},
        "assumptions": ["store capacity is lowered through a variable that replaces the uses of the constant tssCap at build time; the statement's 2^20 itself is only asserted by the thorough tier's capacity run",
                        "interleavings are explored at statement granularity; 'free of data races' is decided through atomicity (relation evaluated on snapshots at lock acquire/release), not with the race detector",
                        "snapshots are taken by the scheduler-side hooks without the lock"],
        "required_probes": ["interleaved-served", "dropped-without-kernel-stamp", "kernel-stamp-recorded", "listener-identity-run", "cross-identity-request-served-basic", "same-instant-requests", "served-pair-is-kernel-pair", "echo-between-exchanges", "clock-reading-nanoseconds-after-rx-stamp"],
    },
    "C07": {
        "level": "exploration",
        "budget": {"quick": 60, "thorough": 900},
        "runs": {"quick": 5000, "thorough": 1500000},
        "rule": "one run = 1..8 simulated callers x 6..45 (handleRequest, updateTXTimestamp) pairs on the real timestamp store through the export shim, statement-level yields inside both functions "
                "and the heap methods plus the simulator-aware mutex in 4/5 of the multi-caller runs, store capacity 2..16 (same eviction code as at 2^20), 1..5 recurring clients plus floods of one-shot clients; "
                "requests crafted against what is on record: interleaved requests naming a recorded / never issued / other client's origin, equal receive and transmit fields, receive times colliding with "
                "recorded ones, decreasing and repeated, clock readings before / at / after the receive time; kernel transmit timestamps present, equal to or earlier than the receive time, or missing; "
                "non-trivial = at least 4 requests served; distinct = distinct event-log hash",
        "components": {"real": ["core/server handleRequest, updateTXTimestamp, tssQueue (container/heap)", "net/ntp Time64"],
                       "thorough_tier_extra": "run 0 of a thorough batch drives the store at the code's own capacity: 2^20 + 50000 distinct clients, asserting the statement's 2^20, eviction of the oldest and stateless service of older requests",
                       "stub": dict(STUBS_COMMON, **{"listeners": "simulated callers (this check drives the two functions directly; the listeners themselves run in C03/C09)",
                                                     "sync.Mutex in server.go": "simsync.Mutex (parks in the scheduler)"})},
        "assumptions": ["store capacity is lowered through a variable that replaces the uses of the constant tssCap at build time; the statement's 2^20 itself is only asserted by the thorough tier's capacity run",
                        "interleavings are explored at statement granularity; 'free of data races' is decided through atomicity (relation evaluated on snapshots at lock acquire/release), not with the race detector",
                        "snapshots are taken by the scheduler-side hooks without the lock"],
        "required_probes": ["evicted", "stateless", "interleaved-served"],
    },
    "C08": {
        "level": "exploration",
        "stall_is_violation": True,
        "stall_s": 8,
        "budget": {"quick": 100, "thorough": 1200},
        "runs": {"quick": 2400, "thorough": 300000},
        "rule": "one run = one of eight sub-worlds (run index mod 8): the real IP NTP/NTS listener, the real SCION listener (service port and end-host port, with and without the DRKey fetcher), the real CSPTP listeners, "
                "the real NTS-KE server behind real TLS, and the real IP, SCION, CSPTP and NTS-KE clients facing a hostile peer. Inputs: arbitrary bytes up to the receive-buffer size and structure-aware mutations of genuine packets "
                "(bit flips, boundary bytes and 16-bit words, truncation, appended and self-copied data; NTS extension and cookie TLV lengths 0..5/0xffff, 1 cookie + 7 placeholders; SCION address type/length nibbles, path type, header/payload lengths, "
                "path meta header, authenticator options of 0..40 bytes, timestamp options holding crafted control messages, SCMP types; CSPTP truncations with consistent length fields; NTS-KE records with lying lengths, "
                "cookies of 0..2000 bytes, non-IP server names, short port and AEAD records; garbage instead of a TLS handshake). After each burst a well-formed sentinel request on the same socket must be answered "
                "(listeners) or a clean exchange must still succeed (clients); non-trivial = at least two crafted inputs; distinct = distinct event-log hash",
        "required_probes": ["sentinel-answered", "mode:ip-listener", "mode:scion-listener", "mode:csptp-listener", "mode:ntske-server", "mode:ip-client", "mode:scion-client", "mode:csptp-client", "mode:ntske-client", "sealed-request-odd-identifier", "ntske-client-over-scion", "sealed-request-hostile-encrypted-fields", "hostile-input-for-the-forwarder", "source-host-address-not-an-ip"],
        "components": {"real": ["core/server runIPServer, runSCIONServer (NTP, SCMP, forwarder), runCSPTPServerIP, handleKeyExchangeTLS", "core/client IPClient, SCIONClient, CSPTPClientIP", "net/ntske Fetcher, ReadData, cookies",
                                "net/nts, net/ntp, net/csptp, net/udp (cmsg parsers), net/scion auth.go", "gopacket/slayers decoding"],
                       "stub": dict(STUBS_COMMON, **{"kernel UDP/TCP": "simnet", "hostile peers": "scripted"}),
                       "not_run": ["net/scion/quic.go serverConn/clientConn ReadFrom (QUIC transport)", "NTS-KE over QUIC"]},
        "assumptions": ["the QUIC transport of NTS-KE over SCION (core/server/ntske_scion.go, net/ntske/ntske_scion.go, net/scion/quic.go) is NOT exercised: quic-go is not run under the simulator; seeded change C08-F (a hang in that accept loop) is missed", "a panic in a goroutine the harness started is recovered and attributed to the innermost repository frame; a panic in a goroutine the code started itself kills the worker and is attributed by re-running that seed alone",
                        "a loop that never returns to the simulator is detected by the wall-clock watchdog (8 s) and reported as stall/<function> only if it reproduces"],
    },
    "C09": {
        "level": "exploration",
        "stall_is_violation": True,
        "stall_s": 8,
        "budget": {"quick": 80, "thorough": 600},
        "runs": {"quick": 600, "thorough": 40000},
        "rule": "one run = 96 crafted datagrams fired at 8 real runIPServer listeners (one SO_REUSEPORT group, real NTS key provider); the first 187 runs of a batch enumerate "
                "the complete space {256 first header bytes} x {lengths 0,1,47,48,49,50,51,52,75,76,100,1024,2047,2048} x {trailer zeros, random, 0xff, valid NTS request built with the project's encoder, "
                "the same with one bit flipped}; runs 187..373 enumerate the same space against 4 real runSCIONServer listeners (the payloads inside SCION/UDP packets handed over by a border router; replies must go back to that router "
                "with ISD-AS, host and ports exchanged); later runs (every third over SCION) sample first bytes, lengths 0..2048, source ports, network duplicates and missing / nanosecond-form receive and missing / late transmit kernel timestamps at the listeners; every 8th reply is fed back with a forged source; "
                "non-trivial = at least one datagram answered and one ignored; distinct = distinct event-log hash",
        "exhaustive_part": "first byte x length class x trailer class (17920 cases) enumerated completely against the IP listeners when the batch has at least 187 runs and against the SCION listeners when it has at least 374 (quick tier: 600 runs)",
        "required_probes": ["answered", "ignored", "nts-answered", "reflection-checked", "answered-over-scion", "mixed-address-families", "via-endhost-port", "from-well-known-port", "cookies-under-previous-key", "request-with-extension-headers", "udp-length-field-zero", "valid-nts-request-of-chosen-length"],
        "components": {"real": ["core/server runIPServer, runSCIONServer, handleRequest", "net/ntp DecodePacket, ValidateRequest", "net/nts DecodePacket, ProcessRequest", "net/ntske cookies, Provider"],
                       "stub": dict(STUBS_COMMON, **{"kernel UDP stack": "simnet", "senders": "scripted datagram injector"})},
        "assumptions": ["over SCION the reply's path reversal is C13's clause; here its addressing (previous hop, ISD-AS, host, ports) is checked",
                        "a datagram is given 5 ms of virtual time to be answered; replies are attributed through the simulator's causality tracking (which datagram the answering socket had read last)"],
    },
    "C10": {
        "level": "fault_enumeration",
        "budget": {"quick": 80, "thorough": 900},
        "runs": {"quick": 160, "thorough": 60000},
        "rule": "one run = one NTS session between the real IPClient and the real listeners (real NTS-KE over simulated TLS) in which 128 tampered copies of packets captured in flight are delivered: "
                "the first 32 runs of a batch enumerate every single-bit flip of the 252-byte request (delivered to the listeners) and of the 252-byte response (delivered to the client's socket ahead of the genuine one); "
                "runs 32..63 repeat that enumeration with the NTP exchange carried over SCION (real SCIONClient with NTS, real runSCIONServer listeners with the key provider, relay router; tampered copies re-wrapped with consistent SCION/UDP lengths and checksum); "
                "later runs (every 4th of them over SCION) sample bit flips, responses correctly re-sealed under the session key but with a longer / shorter / one-bit-different unique identifier, every 16-bit length word set to 0,1,3,4,-4,+4,0xffff,15,16,17, the client's own request reflected as a response, a genuine response to an earlier request replayed, and unmodified replays; "
                "non-trivial = at least two tampered packets judged; distinct = distinct event-log hash",
        "exhaustive_part": "single-bit flips of one request and one response at pool level 8: 4032 cases, enumerated completely over IP when the batch has at least 32 runs and again over SCION when it has at least 64 (quick tier: 160 runs)",
        "required_probes": ["genuine-accepted", "request-tamper-rejected", "response-tamper-rejected", "genuine-accepted-after-tampered", "unauthenticated-position", "resealed-other-identifier", "transport:scion", "zero-tail-cut", "genuine-copy-behind-forged-request", "fields-inserted-before-authenticator", "trailing-data-ignored", "nonce-lengthened"],
        "components": {"real": ["net/nts DecodePacket, ProcessRequest, ProcessResponse, authenticate", "net/ntske cookies (Decode, Decrypt), Provider", "core/server runIPServer, runSCIONServer (NTS branches)", "core/client IPClient, SCIONClient (NTS branches)", "NTS-KE over real TLS"],
                       "stub": dict(STUBS_COMMON, **{"kernel UDP/TCP": "simnet", "attacker": "scripted re-delivery of captured packets", "SCION border routers": "one relay router", "NTS-KE transport of the SCION client": "TLS on simulated TCP (production wiring: QUIC over SCION, not simulated)"})},
        "assumptions": ["a change is 'accepted' by a listener iff it answers at all (with or without NTS fields), by the client iff the tampered datagram is the one it had read last when it reported an offset",
                        "the two bytes of the authenticator field's own extension length are not authenticated and not interpreted: the statement is silent there (either outcome)",
                        "different-session keys are exercised by C20/C11 (cookie keys), not here"],
    },
    "C11": {
        "level": "exploration",
        "budget": {"quick": 80, "thorough": 900},
        "runs": {"quick": 3000, "thorough": 300000},
        "rule": "one run = 6..45 measurement attempts of the real IPClient with NTS (real Fetcher) against the real NTS-KE server (real TLS 1.3 on simulated TCP) and 2 real NTP listeners with the real key Provider; "
                "every 4th run carries the NTP exchange over SCION instead (real SCIONClient with NTS, real runSCIONServer listeners, relay router); replays of stale genuine responses of the session ahead of the genuine one in 1/2 of the runs; "
                "loss bursts of length 1..10 on requests or on responses in 3/4 of the runs (bursts of 7 and more only in 1/5 of those), idle gaps of 1 h..5 d between attempts in 1/3 of the runs "
                "(server key renewal and retirement, cookies expiring, re-keying); every request and reply on the wire is parsed by the harness's own RFC 8915 field walker and authenticated independently with miscreant; "
                "non-trivial = at least two successful exchanges; distinct = distinct event-log hash",
        "required_probes": ["exchange-ok", "exchange-ok:ip", "exchange-ok:scion", "reply-verified", "re-keyed", "pool-restored", "request-at-level-8", "request-at-level-5", "recovered-after-server-restart", "request-at-level-1", "server-busy-while-client-idle", "nts-over-packet-authentication", "failed-on-timestamps-with-duplicated-reply"],
        "components": {"real": ["net/ntske Fetcher (FetchData, StoreCookie), Provider, cookies", "net/nts NewRequestPacket, EncodePacket, DecodePacket, ProcessRequest/Response, NewResponsePacket",
                                "core/server runIPServer, runSCIONServer (authenticated branches), handleKeyExchangeTLS", "core/client IPClient, SCIONClient", "crypto/tls"],
                       "stub": dict(STUBS_COMMON, **{"kernel UDP/TCP": "simnet", "SCION border routers": "one relay router", "NTS-KE transport of the SCION client": "TLS on simulated TCP (production wiring: QUIC over SCION, not simulated)"})},
        "assumptions": ["pool level is read through the export shim before each attempt and cross-checked with the placeholder count on the wire",
                        "'as many as fit' is judged with the request's cookie length: fewer cookies than requested are accepted only if one more would exceed 1024 bytes"],
    },
    "C12": {
        "level": "exploration",
        "budget": {"quick": 40, "thorough": 600},
        "runs": {"quick": 20000, "thorough": 1500000},
        "rule": "one run = 1..8 concurrent callers x 4..31 scripted Current()/Get(id) calls on the real ntske.Provider over up to "
                "~30 virtual days (gaps drawn around 24h/2d/3d boundaries), statement-level yields inside the Provider methods in 3/4 of "
                "the runs; non-trivial = at least two distinct keys were seen and at least one Get hit; distinct = distinct event-log hash",
        "required_probes": ["current-generated", "current-reused", "get-hit", "get-expired", "get-unknown", "long-history", "local-zone-with-dst-switch", "key-exchange-after-stall", "stalled-inside-a-call"],
        "components": {"real": ["net/ntske Provider (Current, Get, generateNext)", "crypto/rand via the process RNG",
                                "every 64th run: core/server runNTSKEServerTLS / handleKeyExchangeTLS / newNTSKEMsg behind crypto/tls on the simulated stream, with a scripted client that stalls after the handshake",
                                "every 2048th run: one provider over 66000..69000 renewals (about 185 virtual years)",
                                "a quarter of the runs: time.Local = Europe/Zurich (time/tzdata embedded), started within 100 h of a DST switch"],
                       "stub": STUBS_COMMON},
        "assumptions": ["time.Now inside the provider is the bubble's virtual clock",
                        "sync.Mutex / sync.RWMutex in provider.go are replaced by simsync.Mutex / simsync.RWMutex (same method sets) at build time",
                        "interleavings are explored at statement granularity, not inside expressions"],
    },
    "C01": {
        "level": "exploration",
        # a goroutine of the code under test that spins (a collection that never ends) is this
        # property failing; a stall that cannot be attributed to repository code stays exit 2
        "stall_is_violation": True,
        "stall_s": 20,
        "budget": {"quick": 50, "thorough": 600},
        "runs": {"quick": 16000, "thorough": 1200000},
        "rule": "one run = the real sync.Run loop for 3..50 rounds on a simulated system clock with a recording discipline, 0..7 scripted reference clocks and "
                "0..7 scripted peers (per call: answer / fail / answer late into later rounds / return on cancellation / ignore cancellation; offsets boundary-dense over int64: "
                "0, +-1, +-cutoff+-1, +-cap+-k, +-2^62, MinInt64, MaxInt64, random), admissible configurations (boundary impact factors, cutoffs, timeouts 0..interval/2, intervals 1ms..1h) "
                "and each class of inadmissible one; every 8th run instead wires the whole IP service as timeservice.go does (sync.Run with syncConfig's defaults, 1..4 reference clocks from newNTPReferenceClockIP - real IPClient, "
                "interleaved mode, Ntimed filter - each against real runIPServer listeners of its own host, with loss, duplication and delay) and checks one correction per round, the reference cap and the timeout; "
                "non-trivial = at least 3 rounds completed or an inadmissible configuration refused; distinct = distinct event-log hash",
        "required_probes": ["exact-round", "partial-round", "both-groups", "cutoff-suppressed", "clamped-ref", "clamped-peer", "inadmissible-refused", "wired-round", "wired-nonzero-correction", "real-clock-driver", "config-via-wiring", "peer-offset-exactly-at-cutoff", "sources-classified-by-the-wiring"],
        "components": {"real": ["core/sync Run, measureOffsetToRefClks", "core/client ReferenceClockClient.MeasureClockOffsets, collectMeasurements",
                                "core/measurements FaultTolerantMidpoint", "base/timemath",
                                "driver/clocks SystemClock (Drift, Sleep through an absolute timerfd, Epoch) in 1/4 of the model runs"],
                       "stub": dict(STUBS_COMMON, **{"reference clocks and peers": "scripted client.ReferenceClock", "discipline": "recording adjustments.Adjustment",
                                                     "kernel time interface under the real driver": "simkern (clock_gettime, clock_adjtime, timerfd on a simulated node clock)",
                                                     "context deadline": "context.WithTimeout in sync.go substituted by a scheduler event (simsync.WithTimeout)"})},
        "assumptions": ["the per-interval drift allowance is configured drift x interval (in runs on the real driver; its Drift() truncates to whole nanoseconds, so exact values get an extra tolerance of one impact factor) or the simulated clock's Drift(interval); caps are impact x that value",
                        "float tolerance 2 ns + 1e-12 relative on bounds, 3 ns on exact values; exact value only checked when every source answered before the deadline and |values| <= 2^62"],
    },
    "C13": {
        "level": "exploration",
        "budget": {"quick": 80, "thorough": 900},
        "runs": {"quick": 4000, "thorough": 400000},
        "rule": "one run = 3..14 actions against 2 real runSCIONServer listeners (service port) plus the server's end-host-port listener, behind a recording relay router: measurements by the real SCIONClient "
                "(packet authentication on/off on either side independently, DSCP values 0..63 on either side, basic/interleaved) over an empty path or a SCION path of 1..3 segments and 2..19 hops, optionally received through the real "
                "end-host forwarder on port 30041; SCMP echo and traceroute requests; packets for another L4 port delivered to the service port, to the end-host port, and addressed to the end-host port itself; "
                "in 2/3 of the runs the router flips bits in transit (MAC, SPI, algorithm, payload, address header, traffic class, anywhere) in 10..60 % of the packets; "
                "non-trivial = at least two replies judged at the router; distinct = distinct event-log hash",
        "required_probes": ["ntp-reply-checked", "authenticated-exchange", "client-verified-response", "scmp-reply-checked", "not-forwarded-from-service-port", "forwarded-from-endhost-port", "not-forwarded-to-endhost-port", "measurement-failed", "served-unauthenticated-while-daemon-down", "mixed-address-families", "crafted-ntp-request", "listeners-started-by-the-service", "requests-delivered-to-the-endhost-port", "nts-with-packet-authentication", "authenticator-of-odd-length", "forwarder-stayed-a-forwarder", "forwarder-started-by-the-service", "forged-datagram-in-front-of-the-genuine-one", "scmp-request-behind-extension-headers"],
        "components": {"real": ["core/server runSCIONServer (NTP, SCMP, forwarding branches); in a third of the authenticated runs started by core/server StartSCIONServer itself (sixteen listeners, their fetchers connected to the mock daemon)", "a quarter of the runs: NTS on top (net/nts, net/ntske provider, runNTSKEServerTLS, the client's fetcher over crypto/tls)", "core/client SCIONClient, MeasureClockOffsetSCION", "net/scion auth.go, Fetcher, DeriveHostHostKey", "scionproto slayers/spao/drkey (library)"],
                       "stub": dict(STUBS_COMMON, **{"SCION daemon": "mock daemon.Connector serving DRKeys derived with the real generic.Deriver", "border routers": "scripted relay that forwards, records and tampers", "kernel UDP": "simnet"}),
                       "not_run": ["one-hop and EPIC paths (empty and SCION paths only)"]},
        "assumptions": ["while the SCION daemon is unavailable to a listener (an injected fault the statement does not quantify over) a request with an authenticator is served like one without; the check then only demands that the reply carries no server authenticator", "the oracle recomputes the CMAC with its own call of spao.ComputeAuthCMAC over the packet as received and the key it derives itself",
                        "path reversal is checked against the harness's own reversal of the encoded path"],
    },
    "C14": {
        "level": "exploration",
        "budget": {"quick": 80, "thorough": 900},
        "runs": {"quick": 1200, "thorough": 120000},
        "rule": "one run = (a) an NTS-KE message (the real server's message from newNTSKEMsg in 1/3 of the runs, else a generated one with 1..8 cookies of 0..300 bytes and unknown non-critical records) fed to the real ReadData over "
                "the simulated stream cut at a window of 40 consecutive single positions (windows tile the message across the runs of a batch), at 6 random multi-cut sets and byte by byte, every 7th set through a real TLS 1.3 session whose peer "
                "writes one TLS record per piece; (b) six NTS-protected exchanges with losses whose datagrams are decoded and re-encoded in flight (NTP header identity, accessors, NTS field kinds/alignment vs the harness's walker); "
                "(c) round trips of generated values through the real codecs: NTP headers (8/16-bit fields cycled with the run index), CSPTP messages and both TLVs with and without server state, plain and sealed server cookies with unequal key lengths, "
                "NTS requests/responses at every pool level, NTS-KE records; non-trivial = at least two segmented decodes; distinct = distinct event-log hash",
        "required_probes": ["segmentation-checked", "codecs-checked", "nts-datagram-monitored", "unaligned-cookie-request", "reused-destination-decoded", "response-beyond-usual-packet-size", "concurrent-packers", "unknown-extension-field-skipped", "tlv-encoded-into-reused-buffer"],
        "components": {"real": ["net/ntske ReadData, ExchangeMsg.Pack, cookies", "net/nts EncodePacket/DecodePacket/Process*", "net/ntp EncodePacket/DecodePacket", "net/csptp Encode*/Decode*", "core/server newNTSKEMsg", "crypto/tls"],
                       "stub": dict(STUBS_COMMON, **{"TCP": "simnet streams with explicit cut positions"})},
        "assumptions": ["the 'for all field values' quantifier of the codec clauses is covered by generation only (8/16-bit fields are swept across the runs of a batch, wider fields are random); only the segmentation clause is a schedule property",
                        "NTS requests larger than nts.MaxPacketLen (cookies longer than this project's in all eight fields) are not generated here"],
    },
    "C15": {
        "level": "exploration",
        # a goroutine of the code under test that spins (a collection that never ends) is this
        # property failing; a stall that cannot be attributed to repository code stays exit 2
        "stall_is_violation": True,
        "stall_s": 20,
        "budget": {"quick": 80, "thorough": 900},
        "runs": {"quick": 3000, "thorough": 300000},
        "rule": "one run = 2..10 rounds of the real MeasureClockOffsetSCION with 1..7 real SCIONClients (interleaved mode, recording filters, told apart on the wire by DSCP) and 0..10 paths, each through its own relay router; "
                "per round a tape-chosen subset of the paths is offered (some listed twice, some without a fingerprint, order shuffled), packets are lost at the routers in half of the runs; every 50th run first enumerates crypto.Sample "
                "over every sequence of accepted draws for n <= 7, k <= 4 and RandIntn on the rejection boundary with crypto/rand.Reader replaced by a scripted reader; non-trivial = at least two rounds judged; distinct = distinct event-log hash",
        "exhaustive_part": "crypto.Sample: all draw sequences for n <= 7, k <= min(4,n) (each k-subset equally often); RandIntn residues/rejection at boundary words for n in {1,2,3,5,7,10,1000,2^20,2^31-1}",
        "required_probes": ["round-checked", "multi-client-round", "sticky-path-kept", "reset-after-path-withdrawn", "no-path-error", "ftm-checked", "uniformity-enumerated", "reset-outside-interleaved-mode", "wired-reference-clock", "reset-in-round-without-paths", "rounds-seconds-to-minutes-apart", "quiescent-after-rounds", "client-without-filter", "round-without-a-completed-measurement", "ftm-checked-with-failed-clients"],
        "components": {"real": ["core/client MeasureClockOffsetSCION, SCIONClient", "base/crypto Sample, RandIntn", "core/measurements FaultTolerantMidpoint", "core/server runSCIONServer"],
                       "stub": dict(STUBS_COMMON, **{"border routers": "one scripted relay per offered path", "path lookup": "paths are handed to MeasureClockOffsetSCION directly (Pather not run)", "crypto/rand": "seeded per run; scripted reader for the enumeration"})},
        "assumptions": ["uniformity is decided on the random seam (enumeration of draw sequences), not statistically; positions within the chosen subset are not required to be uniform",
                        "paths without a fingerprint are outside the stickiness clause"],
    },
    "C16": {
        "level": "exploration",
        # a goroutine of the code under test that spins (a collection that never ends) is this
        # property failing; a stall that cannot be attributed to repository code stays exit 2
        "stall_is_violation": True,
        "stall_s": 20,
        "budget": {"quick": 40, "thorough": 600},
        "runs": {"quick": 20000, "thorough": 1500000},
        "rule": "one run = one real ReferenceClockClient.MeasureClockOffsets call with a context deadline in {0,1ns,1ms,500ms,3s} over 0..8 scripted "
                "clocks (success/error x before / 1ns before / at / 1ns after / after the deadline / on cancellation / never until released), "
                "0..3 overlapping second collections, optionally a follow-up collection on the same collector; non-trivial = at least one clock; "
                "distinct = distinct event-log hash",
        "required_probes": ["returned-at-deadline", "returned-early", "overlap-refused", "second-round", "partial-round", "success-with-zero-timestamp", "more-than-eight-clocks", "result-at-return-instant", "second-caller-at-the-same-instant", "same-instant-first-caller-refused", "same-instant-second-caller-refused", "refused-for-its-arguments-first"],
        "components": {"real": ["core/client ReferenceClockClient.MeasureClockOffsets, collectMeasurements", "context.WithTimeout timers (raw, virtual time)"],
                       "stub": dict(STUBS_COMMON, **{"reference clocks": "scripted client.ReferenceClock implementations"})},
        "assumptions": ["goroutine quiescence is measured with runtime.NumGoroutine against a baseline taken inside the bubble"],
    },
    "C17": {
        "level": "exploration",
        "budget": {"quick": 30, "thorough": 400},
        "runs": {"quick": 30000, "thorough": 2000000},
        "rule": "one run = one filter instance (lucky-packet with capacity 1..64 and pick 1..80, unconfigured lucky-packet, or Ntimed) fed 1..80 samples that are the four "
                "timestamps of simulated exchanges (true offset up to +-55 h, delays with 0..200 ms jitter, distinct round-trip delays for the lucky-packet comparison), "
                "with an explicit Reset or a clock-epoch change (registered simulated clock stepped) at a tape-chosen position; non-trivial = at least two samples; distinct = distinct event-log hash",
        "required_probes": ["window-full", "picked-subset", "unconfigured", "raw-early", "fresh-equal", "reset", "epoch-change", "raw-within-bounds", "outside-bounds", "round-trip-delay-not-positive", "sample-exactly-on-lower-bound"],
        "components": {"real": ["core/client LuckyPacketFilter, NtimedFilter", "core/timebase.Epoch via the registered clock", "net/ntp ClockOffset/RoundTripDelay"],
                       "stub": dict(STUBS_COMMON)},
        "assumptions": ["Ntimed clause 'whenever a sample lies within its learned delay bounds' is checked only through the first-three-samples rule and the metamorphic reset check (the bounds are internal)",
                        "raw-offset tolerance for Ntimed: 4 ns + 8e-15 x magnitude of the one-way differences (float64 seconds)"],
    },
    "C19": {
        "level": "exploration",
        "budget": {"quick": 30, "thorough": 400},
        "runs": {"quick": 30000, "thorough": 2000000},
        "rule": "one run = 5..64 updates (offset over the whole int64 range with boundary values around 1 ms, weight in {0,1,3,3.0000001,4,49,50,100,149,150,1000,1e6}) of the real Pll at "
                "gaps from 0 to 600 s on a simulated clock that records Step/Adjust, bumps its epoch on Step and is stepped from outside with probability 1/15 per update; "
                "non-trivial = at least one Step or Adjust was requested; distinct = distinct event-log hash",
        "required_probes": ["step", "adjust", "adjust-nonzero", "initial-step-decision", "epoch-restart", "real-clock-driver", "slew-ended-by-driver", "kernel-clock-stepped", "weight-not-finite", "outage-hours-to-weeks", "most-negative-offset"],
        "components": {"real": ["core/sync/adjustments Pll", "base/timemath",
                                "driver/clocks SystemClock (Step, Adjust and the goroutine that ends a slew, Sleep, Epoch, Now) in 1/3 of the runs"],
                       "stub": dict(STUBS_COMMON, **{"kernel time interface under the real driver": "simkern: clock_gettime, clock_adjtime (ADJ_SETOFFSET|ADJ_NANO, ADJ_FREQUENCY limited to 500 ppm), absolute timerfd on a simulated node clock with an oscillator error of up to 50 ppm"})},
        "assumptions": ["'start of the current clock epoch' is the first update observed in that epoch", "slew bound checked as |offset| <= 500e-6 x ceil(seconds since the previous update) + 1 ns"],
    },
    "C20": {
        "level": "exploration",
        "budget": {"quick": 80, "thorough": 900},
        "runs": {"quick": 5000, "thorough": 400000},
        "rule": "one run = 1..6 measurement attempts of the real IPClient with NTS (wired by the repository's configureIPClientNTS; real ntske.Fetcher, dialTLS, ReadData, ExportKeys) on the simulated "
                "TCP transport with tape-chosen segmentation; each key exchange is served either by the real handleKeyExchangeTLS (1/3) or by a scripted TLS 1.3 peer whose ALPN (ntske/1, none, other) "
                "and record sequence are generated: next-protocol, AEAD (15 / other / absent), server and port records, 0..8 cookies of 0..104 bytes, error (codes 0,1,2,3,0x8000,0xffff), warning and "
                "unknown (critical or not) records inserted anywhere, shuffled order, missing end-of-message, records after end-of-message, message written in one or many TLS records, connection cut "
                "(FIN or reset) after 0..1500 bytes; non-trivial = at least one key exchange connection; distinct = distinct event-log hash",
        "required_probes": ["exchange-succeeded", "exchange-failed", "keys-agree", "real-keys-agree", "destination-checked", "named-destination", "scion-client", "named-host-not-an-address", "real-server-exchange", "error-record-not-critical-or-of-odd-length"],
        "components": {"real": ["net/ntske Fetcher, dialTLS, exchangeDataTLS, ReadData, ExportKeys", "core/server handleKeyExchangeTLS, newNTSKEMsg", "core/client IPClient (NTS request path); every fourth run core/client SCIONClient and MeasureClockOffsetSCION (requests through the relay router, destination read from the SCION packet)",
                                "timeservice.go configureIPClientNTS", "crypto/tls (client and server handshakes, exporters)", "net/nts NewRequestPacket/EncodePacket"],
                       "stub": dict(STUBS_COMMON, **{"TCP": "simnet streams (in-order bytes, segmentation, FIN/reset at a byte offset)", "scripted peer": "tls.Server with generated record stream"}),
                       "not_run": ["NTS-KE over QUIC/SCION (quic-go is not simulated); ReadData/ExportKeys/exchangeKeys checks are shared code"]},
        "assumptions": ["a warning record, a connection cut and cookies shorter than 8 bytes make the statement's verdict ambiguous: either outcome is accepted for those scripts",
                        "success of a key exchange is observed through the NTS request the client sends afterwards and the fetcher's cached data (export shim)"],
    },
}

NOT_APPLICABLE = {
    "C02": "pure function of its input slice (no schedule, clock, fault or I/O): not a simulation target; its schedule-facing consequence (order independence of the combined result) is part of the C01/C15/C16 oracles",
    "C04": "pure function of two time values (no schedule, clock, fault or interleaving); worlds placed across the 2036 rollover use it inside C03 but the for-all-nanoseconds statement is enumeration of a function",
    "C18": "pure integer/float arithmetic on conversion helpers; nothing for a scheduler or fault injector to decide",
}

# Properties that the design claims but whose world is not built yet (kept current).
NOT_YET = {p: "designed (DESIGN.md section 3) but the simulated world is not built yet; not claimed until its check runs"
           for p in []}

PROPS["C01"].update(
    level_text="seeded exploration of multi-round histories of the real synchronization loop with scripted sources (values over the whole int64 range, failures, late answers, sources that never answer) and admissible/inadmissible configurations; per-round invariants: exactly one correction, magnitude bounds from the statement, exact value when every source answered in time, correction no later than the round's timeout; start-up refusal of inadmissible settings. Evidence, not proof.",
    level_note="trusts the simulated SystemClock (Drift, Sleep), scripted sources and the substitution of the per-round context deadline by a scheduler event; bounds are computed in float64 with the stated tolerances",
    technique="deterministic simulation: seeded scheduler + virtual time, per-round invariants against a reference computation")
PROPS["C17"].update(
    level_text="seeded exploration of sample histories with resets and clock-epoch changes; lucky-packet filter compared sample by sample with a reference model written from the statement, Ntimed filter checked for raw output on the first three samples after any reset and for history independence after Reset/epoch change against a fresh instance. Evidence, not proof.",
    level_note="the Ntimed 'within learned bounds' clause is only covered indirectly (scope stated in DESIGN.md); trusts the registered simulated clock for the epoch",
    technique="deterministic simulation: generated histories on a simulated clock, reference model and metamorphic reset check")
PROPS["C19"].update(
    level_text="seeded exploration of update histories of the real PLL on a scripted clock with external epoch changes; a small model of the start-up sequence written from the statement decides for every recorded Step/Adjust whether it was allowed. Evidence, not proof.",
    level_note="trusts the simulated SystemClock (records Step/Adjust, epoch bump on Step); clock readings are non-decreasing as the statement requires",
    technique="deterministic simulation: scripted clock with injected steps, invariants on recorded actuation calls")
PROPS["C03"].update(
    level_text="seeded exploration of exchange histories between the real IP client and the real IP listeners on a simulated network with loss, duplication, delay, reordering, clock offset/skew/steps and timestamp faults; for every accepted exchange the four combined timestamps are attributed to one exchange by the simulator's ground truth and the reported offset is compared with the true clock offset against half the true round-trip delay. Evidence, not proof.",
    level_note="IP (3/4 of the runs) and SCION (1/4) transports; trusts the simulated kernel (timestamps, error queue) and clocks; 16 ns rounding allowance",
    technique="deterministic simulation with fault injection: seeded network/clock faults, ground-truth oracle per accepted exchange")
PROPS["C05"].update(
    level_text="seeded exploration with an on-path attacker: differential oracle - an offset may be reported only if the datagram the client consumed last satisfies the statement's predicate (source, origin echo, metadata, timestamps order, NTS identifier and AEAD recomputed independently), and an untouched exchange must succeed. Evidence, not proof.",
    level_note="skip-or-error is not distinguished (both allowed); IP transport only",
    technique="deterministic simulation with fault injection: attacker-injected datagrams, differential acceptance predicate")
PROPS["C06"].update(
    level_text="seeded exploration of request/update histories and statement-level interleavings on the real store; every reply and every state change is judged by a relation written from the statement (receive timestamp, uniqueness, basic/interleaved structure, which transmit time may be served, what an update may change, no cross-client serving). Evidence, not proof.",
    level_note="relational oracle on store snapshots taken at mutex acquire/release; the replacement choice inside a client's eight slots is left open as the statement does",
    technique="deterministic simulation: seeded scheduler with statement-level yields, relational oracle on store snapshots")
PROPS["C07"].update(
    level_text="seeded exploration as for C06 plus store-wide invariants after every operation (map/heap agreement, back-pointers, heap order, 1..8 distinct exchanges per client, rank never older than the newest exchange, capacity) and the eviction rule (only the heap root, only for a request at least as recent, otherwise stateless). Evidence, not proof; capacity explored at 2..16 in this tier.",
    level_note="'free of data races' is decided through its observable consequence (atomicity under statement-level interleaving), see DESIGN.md section 7",
    technique="deterministic simulation: seeded scheduler with statement-level yields, store invariants and eviction relation on snapshots")
PROPS["C08"].update(
    level_text="seeded structure-aware fuzzing of every receive loop inside the simulator (listeners and clients, IP and SCION, NTS, NTS-KE over TLS, CSPTP) with a no-panic / no-stall / sentinel-still-answered oracle. Evidence, not proof.",
    level_note="QUIC transport not run; sub-world chosen by run index so that every batch visits all eight",
    technique="deterministic simulation with fault injection: hostile peers and corrupted packets at every receive loop, crash/stall/sentinel oracle")
PROPS["C09"].update(
    level_text="complete enumeration of the first-byte x length-class x trailer-class space against the running listeners plus seeded sampling of the rest (remaining header bytes, lengths, ports, duplicates); reply count, addressing, reply header and anti-reflection are decided by the simulated network's accounting. Enumeration is exhaustive for the stated sub-space only; everything else is evidence, not proof.",
    level_note="trusts the simulator's causality tracking of replies; listener hangs are detected by the wall-clock watchdog and reported as violations (stall) only if they reproduce",
    technique="deterministic simulation: enumerated + seeded crafted-datagram injection at real listeners, wire accounting oracle")
PROPS["C20"].update(
    level_text="seeded exploration of key-exchange histories between the real NTS-KE client and a real or scripted TLS peer on a simulated TCP transport: success only for offers the statement allows, success for every well-formed offer, keys equal to the peer's RFC 8915 exporter values (or, for the real server, to the keys sealed in its cookies), pool equal to the issued cookies in order, destination of the following request, and nothing left behind by a failed exchange. Evidence, not proof.",
    level_note="TLS transport only (QUIC not simulated); crypto/rand pinned per run; scripted peer encodes records with its own encoder",
    technique="deterministic simulation with fault injection: scripted TLS peer, stream segmentation and cuts, history oracle over attempts")
PROPS["C10"].update(
    level_text="fault enumeration: every single-bit corruption of a genuine NTS request and response is delivered in flight to the real listener / client and must be rejected (apart from the two unauthenticated length bytes), genuine packets must be accepted; sampled length-word mutations, reflection and replay on top. Exhaustive for the stated sub-space of one session; evidence otherwise.",
    level_note="one session's keys per run (seeded); judged through replies and through which datagram the client consumed last",
    technique="deterministic simulation with enumerated in-flight corruption faults")
PROPS["C11"].update(
    level_text="seeded exploration of exchange histories with loss bursts, idle days (key rotation/retirement) and re-keying between the real NTS client, key-exchange server and NTP listeners; a wire monitor decides cookie single use, cookie/placeholder typing and count, request and reply size, reply authenticity, freshness and validity of issued cookies; pool accounting after every attempt. Evidence, not proof.",
    level_note="IP and SCION transport, all pool levels 1..8; the maximum packet size is the one the implementation declares (nts.MaxPacketLen); the monitor's field walker and AEAD check are independent of the repository's decoder; server restart is not injected in this tier",
    technique="deterministic simulation with fault injection: scripted loss bursts and virtual-time key rotation, wire monitor + pool model")
PROPS["C12"].update(
    level_text="seeded exploration of call histories and statement-level interleavings of the real Provider under a virtual clock over weeks of virtual time; per-call invariants from the statement plus a porcupine linearizability check against a permissive model. Evidence, not proof.",
    level_note="trusts testing/synctest's fake clock, the simulator-aware mutex substituted for sync.Mutex, and that interleavings finer than statements do not matter; constants (24h, 3d, 2d) are taken from the property statement",
    technique="deterministic simulation: seeded scheduler + virtual clock, per-operation invariants, porcupine linearizability on recorded histories")
PROPS["C13"].update(
    level_text="seeded exploration with in-flight tampering at a relay router: a request (response) carrying the time service's authenticator is served (accepted) only if an independent recomputation of its CMAC matches, the reply to a verified request verifies, every reply goes to the previous hop over the independently reversed path with addresses and ports exchanged, SCMP payloads are echoed intact, and forwarding happens only from the end-host port and never back to it. Evidence, not proof.",
    level_note="IPv4 and (1/3 of the runs) IPv6 hosts, empty and standard SCION paths; DRKeys from a mock daemon; border-router MAC checks are not modelled",
    technique="deterministic simulation with fault injection: tampering relay router, independent MAC recomputation and reply-addressing oracle")
PROPS["C14"].update(
    level_text="the segmentation clause is decided by simulation: the real record reader over a simulated stream cut at every single position (tiled across a batch) and at random multiple positions, raw and through TLS; the codec clauses are checked on every datagram in flight and on generated values through the real encoders/decoders. Evidence, not proof; exhaustive only for single cut positions of the messages used when the batch is large enough to tile them.",
    level_note="codec round trips are input generation, not simulation (scope stated in DESIGN.md); QUIC transport not run",
    technique="deterministic simulation: scripted stream segmentation (every cut position), in-flight decode/re-encode monitor, generated codec round trips")
PROPS["C15"].update(
    level_text="seeded exploration of multi-round path offers, withdrawals, duplicates and losses with the path each client used observed at per-path relay routers: pairwise distinct paths, participation bounded by the offer, sticky interleaved paths, reset otherwise, error without paths, fault-tolerant midpoint of per-client values; plus complete enumeration of the sampling routine's draw sequences for small n, k. Evidence (exhaustive for the stated sampling sub-space), not proof.",
    level_note="IPv4, no packet authentication in this world; clients identified by DSCP on the wire",
    technique="deterministic simulation with fault injection: per-path relay routers as observers, enumerated random seam for uniformity")
PROPS["C16"].update(
    level_text="seeded exploration of completion times around the deadline, success/error outcomes, release orders, select choices between a pending result and cancellation (the select in collectMeasurements is rewritten into a scheduler decision), slow-collector faults, overlapping and follow-up collections; oracles on return time, result prefix, refusal of overlap and goroutine quiescence. Evidence, not proof.",
    level_note="trusts the simulator's substitution of the receive-only select by simsync.Select (same semantics outside the simulator) and of context deadlines by scheduler events; goroutine leaks are judged from stack dumps of the run's bubble",
    technique="deterministic simulation: seeded scheduler with controlled select choice and virtual deadlines; invariants on return instant, result slice and goroutine quiescence")
