// Package simclock provides per-node simulated clocks behind the repository's
// timebase.SystemClock interface, and the single process-wide dispatching clock
// that timebase.RegisterClock accepts once.
package simclock

import (
	"sync"
	"time"
)

// Clock is a node clock: virtual (bubble) time plus an offset that can be
// stepped, plus a frequency error. All arithmetic is integer nanoseconds.
type Clock struct {
	mu      sync.Mutex
	offset  time.Duration // added to virtual time
	skewPPB int64         // parts per billion, applied to time since base
	base    time.Time     // virtual instant at which skew accumulation (re)started
	epoch   uint64
	drift   float64 // configured drift for Drift()

	// Recording (used by worlds that script the clock).
	OnStep   func(d time.Duration)
	OnAdjust func(off, dur time.Duration, freq float64)
	OnSleep  func(d time.Duration)
	SleepFn  func(d time.Duration) // blocking sleep provided by the world

	Steps int

	hist []segment // closed segments, oldest first (for ground-truth queries about the past)

	// Fixed, if non-nil, is what Now returns (worlds that script every clock reading).
	Fixed *time.Time
	// Quantum > 0: readings are truncated to a multiple of it (a coarse clock).
	Quantum time.Duration
}

type segment struct {
	from, to time.Time
	offset   time.Duration
	skewPPB  int64
}

func New(offset time.Duration, skewPPB int64, drift float64) *Clock {
	return &Clock{offset: offset, skewPPB: skewPPB, base: time.Now(), drift: drift}
}

// OffsetAt returns clock reading minus virtual time at virtual instant t.
func (c *Clock) OffsetAt(t time.Time) time.Duration {
	c.mu.Lock()
	defer c.mu.Unlock()
	return c.offsetAtLocked(t)
}

func (c *Clock) offsetAtLocked(t time.Time) time.Duration {
	base, offset, skew := c.base, c.offset, c.skewPPB
	if t.Before(c.base) {
		for i := len(c.hist) - 1; i >= 0; i-- {
			h := c.hist[i]
			if !t.Before(h.from) || i == 0 {
				base, offset, skew = h.from, h.offset, h.skewPPB
				break
			}
		}
	}
	el := t.Sub(base)
	// el * ppb / 1e9 without overflow for |el| < ~292 years and |ppb| < 1e6
	sk := (int64(el)/1e9)*skew + (int64(el)%1e9)*skew/1e9
	return offset + time.Duration(sk)
}

// SteppedBetween reports whether the clock was stepped (or its rate changed) in [a,b].
func (c *Clock) SteppedBetween(a, b time.Time) bool {
	c.mu.Lock()
	defer c.mu.Unlock()
	for _, h := range c.hist {
		if !h.to.Before(a) && !h.to.After(b) {
			return true
		}
	}
	return false
}

// InstantOf returns the virtual instant at which the clock showed reading, near hint.
func (c *Clock) InstantOf(reading, hint time.Time) time.Time {
	t := reading.Add(-c.OffsetAt(hint))
	t = reading.Add(-c.OffsetAt(t))
	return reading.Add(-c.OffsetAt(t))
}

// At returns the clock reading at virtual instant t.
func (c *Clock) At(t time.Time) time.Time {
	r := t.Add(c.OffsetAt(t)).UTC()
	if c.Quantum > 0 {
		r = r.Truncate(c.Quantum)
	}
	return r
}

func (c *Clock) Now() time.Time {
	if c.Fixed != nil {
		return *c.Fixed
	}
	return c.At(time.Now())
}

func (c *Clock) Epoch() uint64 { c.mu.Lock(); defer c.mu.Unlock(); return c.epoch }

func (c *Clock) Drift(d time.Duration) time.Duration {
	return time.Duration(float64(d) * c.drift)
}

// StepBy changes the clock by d and bumps the epoch (an external step or the
// discipline's Step).
func (c *Clock) StepBy(d time.Duration) {
	c.mu.Lock()
	now := time.Now()
	c.hist = append(c.hist, segment{c.base, now, c.offset, c.skewPPB})
	c.offset = c.offsetAtLocked(now) + d
	c.base = now
	c.epoch++
	c.Steps++
	c.mu.Unlock()
}

func (c *Clock) Step(d time.Duration) {
	if c.OnStep != nil {
		c.OnStep(d)
	}
	c.StepBy(d)
}

func (c *Clock) Adjust(off, dur time.Duration, freq float64) {
	if c.OnAdjust != nil {
		c.OnAdjust(off, dur, freq)
	}
}

func (c *Clock) Sleep(d time.Duration) {
	if c.OnSleep != nil {
		c.OnSleep(d)
	}
	if c.SleepFn != nil {
		c.SleepFn(d)
		return
	}
	time.Sleep(d)
}

// SetSkew changes the frequency error from now on.
func (c *Clock) SetSkew(ppb int64) {
	c.mu.Lock()
	now := time.Now()
	c.hist = append(c.hist, segment{c.base, now, c.offset, c.skewPPB})
	c.offset = c.offsetAtLocked(now)
	c.base = now
	c.skewPPB = ppb
	c.mu.Unlock()
}

// ---- dispatching clock -----------------------------------------------------------

// Dispatch is registered with timebase.RegisterClock once per process; it answers
// for whatever clock Current returns at the time of the call.
type Dispatch struct {
	mu      sync.Mutex
	current func() *Clock
}

var Global = &Dispatch{}

func (d *Dispatch) Set(f func() *Clock) { d.mu.Lock(); d.current = f; d.mu.Unlock() }

func (d *Dispatch) clk() *Clock {
	d.mu.Lock()
	f := d.current
	d.mu.Unlock()
	if f == nil {
		panic("simclock: no current clock")
	}
	c := f()
	if c == nil {
		panic("simclock: current node has no clock")
	}
	return c
}

func (d *Dispatch) Epoch() uint64                        { return d.clk().Epoch() }
func (d *Dispatch) Now() time.Time                       { return d.clk().Now() }
func (d *Dispatch) Drift(x time.Duration) time.Duration  { return d.clk().Drift(x) }
func (d *Dispatch) Step(x time.Duration)                 { d.clk().Step(x) }
func (d *Dispatch) Adjust(o, x time.Duration, f float64) { d.clk().Adjust(o, x, f) }
func (d *Dispatch) Sleep(x time.Duration)                { d.clk().Sleep(x) }
