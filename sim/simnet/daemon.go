package simnet

import (
	"context"

	"github.com/scionproto/scion/pkg/daemon"
)

// Daemon, when set by a world, stands in for the SCION daemon the code under test
// connects to (scion.NewDaemonConnector is redirected here in core/server).
var Daemon func(addr string) daemon.Connector

// NewDaemonConnector stands in for net/scion.NewDaemonConnector.
func NewDaemonConnector(ctx context.Context, daemonAddr string) daemon.Connector {
	if daemonAddr == "" || Daemon == nil {
		return nil
	}
	return Daemon(daemonAddr)
}
