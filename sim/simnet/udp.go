// Package simnet is the simulated kernel network stack: UDP sockets with
// SO_REUSEPORT groups, kernel receive/transmit timestamps delivered as real
// control messages, an error queue read through stand-ins for unix.Poll and
// unix.Recvmsg, and (in stream.go) in-memory byte streams that carry TLS.
// Every blocking call parks in the scheduler of the active simcore.Run.
package simnet

import (
	"context"
	"encoding/binary"
	"errors"
	"fmt"
	"net"
	"net/netip"
	"os"
	"sort"
	"strconv"
	"sync"
	"syscall"
	"time"

	"golang.org/x/sys/unix"

	"verif.local/sim/simclock"
	"verif.local/sim/simcore"
)

// Host is a simulated end host: a node (clock, liveness) with IP addresses.
type Host struct {
	Node  *simcore.Node
	Clock *simclock.Clock
	Addrs []netip.Addr
}

// Datagram is a UDP datagram in flight or in a socket queue.
type Datagram struct {
	ID       uint64
	Src, Dst netip.AddrPort
	Payload  []byte
	SentAt   time.Time // virtual instant of the send call
	SrcConn  *UDPConn
	Cause    uint64 // ID of the datagram the sending socket had consumed last (0 = none)
	Note     string // annotation by worlds (e.g. "spoof", "dup", "corrupt")
	OrigID   uint64 // for duplicates / mutated copies: the original datagram
	// Filled at delivery:
	ArrivedAt time.Time
	RxStamp   time.Time // receiver node clock at arrival
	DstConn   *UDPConn
	// Transmit bookkeeping
	TxStamp time.Time // sender node clock at send
	// TxStampFault: "" (the kernel transmit timestamp was readable at once), "missing", "late"
	TxStampFault string
}

// Route describes what the network does with one sent datagram.
type Route struct {
	D     *Datagram
	Delay time.Duration
}

// FaultPlan holds per-run fault knobs; zero value = perfect network with fixed
// minimal latency. Rates are numerators over 1000.
type FaultPlan struct {
	MinLatency, MaxLatency time.Duration
	Drop, Dup, Corrupt     uint64 // per mille
	DupSameInstant         uint64 // per mille of the duplicates: delivered at the instant of the original
	LongDelay              uint64 // per mille: latency drawn up to LongDelayMax instead
	LongDelayMax           time.Duration
	RxStampMissing         uint64 // per mille: no control message on receive
	RxStampNS              uint64 // per mille: SCM_TIMESTAMPNS form instead of SO_TIMESTAMPING
	TxStampMissing         uint64 // per mille: no error-queue entry for a send
	TxStampLate            uint64 // per mille: error-queue entry appears after the poll timeout
	ReadErr, ReadFlags     uint64 // per mille on receive calls
	WriteErr, ShortWrite   uint64 // per mille on send calls
}

// Net is the simulated network of one run.
type Net struct {
	R  *simcore.Run
	mu sync.Mutex

	hosts   map[netip.Addr]*Host
	conns   map[int]*UDPConn // by fake fd
	bound   map[netip.AddrPort][]*UDPConn
	nextFd  int
	nextEph map[netip.Addr]uint16
	nextID  uint64
	lcount  map[string]int

	Plan FaultPlan
	// PlanFor, if set, overrides Plan per datagram and socket (the socket performing
	// the send or the receive), e.g. timestamp faults on the server's sockets only.
	PlanFor func(d *Datagram, at *UDPConn) *FaultPlan
	// OnSend observes every datagram at the moment it is sent (wire monitor).
	OnSend func(d *Datagram)
	// Intercept, if set, may replace the default routing of a datagram
	// (attacker / relay logic). Return handled=false for default routing.
	Intercept func(d *Datagram) (routes []Route, handled bool)
	// OnDeliver observes every datagram when it is put into a socket queue.
	OnDeliver func(d *Datagram)
	// OnClose observes sockets being closed (with their last consumed datagram).
	OnClose func(c *UDPConn)
	// OnRecv observes every datagram a socket read returns.
	OnRecv func(c *UDPConn, d *Datagram)
	// Setup: the world is still being set up on the root goroutine (the scheduler is not
	// running yet): start-up code of the service that binds sockets does not park.
	Setup bool
	// ReusePorts: ephemeral ports may be handed out again after Close.
	ReusePorts bool
	freePorts  map[netip.Addr][]uint16

	Sent, DeliveredN, Dropped int64
	deliveredByID             map[uint64]*Datagram

	// Simulated TCP (stream.go)
	streamListeners map[netip.AddrPort]*StreamListener
	streamSeq       int
	TLSClientHost   *Host                 // host that tls.DialWithDialer stand-in dials from
	Names           map[string]netip.Addr // host names resolvable by DialStream
}

var active struct {
	mu sync.Mutex
	n  *Net
}

// New creates the network for run r and makes it the process-wide active one.
func New(r *simcore.Run) *Net {
	n := &Net{
		R:         r,
		hosts:     map[netip.Addr]*Host{},
		conns:     map[int]*UDPConn{},
		bound:     map[netip.AddrPort][]*UDPConn{},
		nextFd:    1000,
		nextEph:   map[netip.Addr]uint16{},
		lcount:    map[string]int{},
		freePorts: map[netip.Addr][]uint16{},
	}
	n.Plan.MinLatency = 50 * time.Microsecond
	n.Plan.MaxLatency = 50 * time.Microsecond
	active.mu.Lock()
	active.n = n
	active.mu.Unlock()
	return n
}

// Active returns the network of the current run.
func Active() *Net {
	active.mu.Lock()
	defer active.mu.Unlock()
	return active.n
}

// AddHost registers a host.
func (n *Net) AddHost(name string, clk *simclock.Clock, addrs ...string) *Host {
	h := &Host{Node: &simcore.Node{Name: name, Clock: clk}, Clock: clk}
	for _, a := range addrs {
		ap := netip.MustParseAddr(a).Unmap()
		h.Addrs = append(h.Addrs, ap)
		n.hosts[ap] = h
	}
	return h
}

func (n *Net) HostOf(a netip.Addr) *Host { return n.hosts[a.Unmap()] }

// ---- UDPConn -----------------------------------------------------------------------

type errqEntry struct {
	stamp   time.Time // sender clock at transmission
	id      uint32
	availAt time.Time // virtual instant from which poll sees it
}

// UDPConn stands in for *net.UDPConn.
type UDPConn struct {
	TOS    int // traffic class set through IP_TOS / IPV6_TCLASS
	net    *Net
	host   *Host
	fd     int
	name   string // deterministic: "<host>/<port>#<k>"
	local  netip.AddrPort
	closed bool

	reusePort bool
	tsOpts    int // SO_TIMESTAMPING_NEW flags (0 = off)
	tsNS      bool

	rdl time.Time // read deadline
	rxq []*Datagram
	erq []errqEntry

	txCount uint32 // kernel tx id counter (OPT_ID)
	opSeq   uint64

	LastRecv *Datagram // datagram returned by the last successful read
	Reads    int
	LateTx   int // kernel transmit timestamps that became readable only after the poll timeout
}

func (c *UDPConn) Name() string          { return c.name }
func (c *UDPConn) Host() *Host           { return c.host }
func (c *UDPConn) Local() netip.AddrPort { return c.local }

func (c *UDPConn) opID(kind string) string {
	if simcore.Tag() == "" {
		// a goroutine the code under test started itself (a listener loop started by the
		// service's own start-up): named after the socket it serves, so that lock hand-offs
		// and yields treat it like the goroutines the worlds start
		simcore.SetTag(c.name)
	}
	c.opSeq++
	return kind + ":" + c.name + ":" + strconv.FormatUint(c.opSeq, 10)
}

// ListenConfig stands in for net.ListenConfig.
type ListenConfig struct {
	Control func(network, address string, c syscall.RawConn) error
}

func (lc *ListenConfig) ListenPacket(ctx context.Context, network, address string) (net.PacketConn, error) {
	n := Active()
	if n == nil {
		return nil, errors.New("simnet: no active network")
	}
	ap, err := netip.ParseAddrPort(address)
	if err != nil {
		return nil, fmt.Errorf("simnet: listen %q: %w", address, err)
	}
	return n.listen(ap, lc.Control, network, address, true)
}

// ListenUDP stands in for net.ListenUDP.
func ListenUDP(network string, laddr *net.UDPAddr) (*UDPConn, error) {
	n := Active()
	if n == nil {
		return nil, errors.New("simnet: no active network")
	}
	ip, ok := netip.AddrFromSlice(laddr.IP)
	if !ok {
		return nil, errors.New("simnet: bad local address")
	}
	return n.listen(netip.AddrPortFrom(ip.Unmap(), uint16(laddr.Port)), nil, network, laddr.String(), true)
}

// Listen binds a socket; used by worlds directly as well.
func (n *Net) Listen(address string, reuse bool) (*UDPConn, error) {
	ap, err := netip.ParseAddrPort(address)
	if err != nil {
		return nil, err
	}
	var ctl func(network, address string, c syscall.RawConn) error
	if reuse {
		ctl = func(_, _ string, c syscall.RawConn) error {
			return c.Control(func(fd uintptr) { SetsockoptInt(int(fd), unix.SOL_SOCKET, unix.SO_REUSEPORT, 1) })
		}
	}
	return n.listen(ap, ctl, "udp", address, false)
}

func (n *Net) listen(ap netip.AddrPort, control func(network, address string, c syscall.RawConn) error,
	network, address string, park bool) (*UDPConn, error) {
	ap = netip.AddrPortFrom(ap.Addr().Unmap(), ap.Port())
	h := n.hosts[ap.Addr()]
	if h == nil {
		return nil, fmt.Errorf("simnet: listen %v: cannot assign requested address", ap)
	}
	// Binding is a scheduling point: its order decides port numbers.
	tag := simcore.Tag()
	n.mu.Lock()
	key := "listen:" + h.Node.Name + ":" + tag
	n.lcount[key]++
	id := key + ":" + strconv.Itoa(n.lcount[key])
	n.mu.Unlock()
	if park && !n.Setup { // sockets opened by the code under test; worlds bind theirs from the root goroutine
		res := n.R.Park(&simcore.Op{ID: id, Node: h.Node, NoDelay: true, Ready: func() bool { return true }})
		if res.Killed {
			runtimeGoexit() // node down or world over: the calling goroutine unwinds (deferred calls run)
		}
	}
	n.mu.Lock()
	defer n.mu.Unlock()
	c := &UDPConn{net: n, host: h, fd: n.nextFd}
	n.nextFd++
	n.conns[c.fd] = c
	if control != nil {
		n.mu.Unlock()
		err := control(network, address, rawConn{c})
		n.mu.Lock()
		if err != nil {
			delete(n.conns, c.fd)
			return nil, err
		}
	}
	port := ap.Port()
	if port == 0 {
		if fp := n.freePorts[ap.Addr()]; n.ReusePorts && len(fp) > 0 {
			port = fp[0]
			n.freePorts[ap.Addr()] = fp[1:]
		} else {
			p := n.nextEph[ap.Addr()]
			if p == 0 {
				p = 40000
			}
			port = p
			n.nextEph[ap.Addr()] = p + 1
		}
	}
	c.local = netip.AddrPortFrom(ap.Addr(), port)
	for _, o := range n.bound[c.local] {
		if !o.reusePort || !c.reusePort {
			delete(n.conns, c.fd)
			return nil, fmt.Errorf("simnet: listen %v: address already in use", c.local)
		}
	}
	k := len(n.bound[c.local])
	n.bound[c.local] = append(n.bound[c.local], c)
	n.lcount["name:"+c.local.String()]++
	c.name = fmt.Sprintf("%s/%d#%d", h.Node.Name, port, n.lcount["name:"+c.local.String()])
	_ = k
	n.R.Log("listen %s", c.name)
	return c, nil
}

var errClosed = net.ErrClosed

type timeoutError struct{}

func (timeoutError) Error() string   { return "i/o timeout" }
func (timeoutError) Timeout() bool   { return true }
func (timeoutError) Temporary() bool { return true }
func (timeoutError) Is(err error) bool {
	return err == os.ErrDeadlineExceeded || err == context.DeadlineExceeded
}

func (c *UDPConn) LocalAddr() net.Addr {
	return &net.UDPAddr{IP: c.local.Addr().AsSlice(), Port: int(c.local.Port())}
}

func (c *UDPConn) SetDeadline(t time.Time) error {
	c.net.mu.Lock()
	c.rdl = t
	c.net.mu.Unlock()
	return nil
}
func (c *UDPConn) SetReadDeadline(t time.Time) error  { return c.SetDeadline(t) }
func (c *UDPConn) SetWriteDeadline(t time.Time) error { return nil }
func (c *UDPConn) SetReadBuffer(int) error            { return nil }

func (c *UDPConn) Close() error {
	n := c.net
	if n.OnClose != nil && !c.closed {
		n.OnClose(c)
	}
	n.mu.Lock()
	defer n.mu.Unlock()
	if c.closed {
		return errClosed
	}
	c.closed = true
	delete(n.conns, c.fd)
	l := n.bound[c.local]
	for i, o := range l {
		if o == c {
			l = append(l[:i:i], l[i+1:]...)
			break
		}
	}
	if len(l) == 0 {
		delete(n.bound, c.local)
		if c.local.Port() >= 40000 {
			n.freePorts[c.local.Addr()] = append(n.freePorts[c.local.Addr()], c.local.Port())
		}
	} else {
		n.bound[c.local] = l
	}
	n.R.Log("close %s", c.name)
	return nil
}

// SyscallConn returns a RawConn whose "fd" is understood by Poll/Recvmsg/SetsockoptInt.
func (c *UDPConn) SyscallConn() (syscall.RawConn, error) { return rawConn{c}, nil }

type rawConn struct{ c *UDPConn }

func (r rawConn) Control(f func(fd uintptr)) error    { f(uintptr(r.c.fd)); return nil }
func (r rawConn) Read(f func(fd uintptr) bool) error  { f(uintptr(r.c.fd)); return nil }
func (r rawConn) Write(f func(fd uintptr) bool) error { f(uintptr(r.c.fd)); return nil }

// ---- send ---------------------------------------------------------------------------

func (c *UDPConn) WriteToUDPAddrPort(b []byte, addr netip.AddrPort) (int, error) {
	if !addr.IsValid() {
		// as package net: no system call is made
		return 0, &net.OpError{Op: "write", Net: "udp", Err: errors.New("missing address")}
	}
	return c.send(b, addr)
}

func (c *UDPConn) WriteTo(b []byte, addr net.Addr) (int, error) {
	ua, ok := addr.(*net.UDPAddr)
	if !ok {
		return 0, errors.New("simnet: WriteTo: not a UDP address")
	}
	ip, ok := netip.AddrFromSlice(ua.IP)
	if !ok {
		return 0, errors.New("simnet: WriteTo: bad address")
	}
	return c.send(b, netip.AddrPortFrom(ip, uint16(ua.Port)))
}

func (c *UDPConn) WriteToUDP(b []byte, addr *net.UDPAddr) (int, error) { return c.WriteTo(b, addr) }

func (c *UDPConn) send(b []byte, dst netip.AddrPort) (int, error) {
	n := c.net
	n.mu.Lock()
	id := c.opID("send")
	n.mu.Unlock()
	res := n.R.Park(&simcore.Op{ID: id, Node: c.host.Node, Ready: func() bool { return true }})
	if res.Killed {
		runtimeGoexit()
	}
	n.mu.Lock()
	if c.closed {
		n.mu.Unlock()
		return 0, errClosed
	}
	dst = netip.AddrPortFrom(dst.Addr().Unmap(), dst.Port())
	now := time.Now()
	n.nextID++
	// the packet leaves the host (and gets its kernel transmit timestamp) a little
	// after the send call: strictly later than any clock reading taken before it
	leave := now.Add(time.Duration(1 + n.R.Tape.Range(0, 1999, "txleave")))
	d := &Datagram{
		ID: n.nextID, Src: c.local, Dst: dst, Payload: append([]byte(nil), b...),
		SentAt: leave, SrcConn: c, TxStamp: c.host.Clock.At(leave),
	}
	if c.LastRecv != nil {
		d.Cause = c.LastRecv.ID
	}
	plan := &n.Plan
	if n.PlanFor != nil {
		n.mu.Unlock()
		if p := n.PlanFor(d, c); p != nil {
			plan = p
		}
		n.mu.Lock()
	}
	t := n.R.Tape
	if plan.WriteErr > 0 && t.Bool(plan.WriteErr, 1000, "f.werr") {
		n.mu.Unlock()
		n.R.Fault("write-error")
		n.R.Log("send %s -> %v werr", c.name, dst)
		return 0, errors.New("simnet: write: no buffer space available")
	}
	// error queue entry (kernel tx timestamp), if timestamping is on
	if c.tsOpts != 0 {
		txid := c.txCount
		c.txCount++
		switch {
		case plan.TxStampMissing > 0 && t.Bool(plan.TxStampMissing, 1000, "f.txmiss"):
			n.R.Fault("tx-stamp-missing")
			d.TxStampFault = "missing"
		case plan.TxStampLate > 0 && t.Bool(plan.TxStampLate, 1000, "f.txlate"):
			n.R.Fault("tx-stamp-late")
			d.TxStampFault = "late"
			c.LateTx++
			c.erq = append(c.erq, errqEntry{stamp: d.TxStamp, id: txid, availAt: now.Add(2 * time.Millisecond)})
		default:
			c.erq = append(c.erq, errqEntry{stamp: d.TxStamp, id: txid, availAt: now})
		}
	}
	n.Sent++
	n.mu.Unlock()
	n.R.Log("send %s -> %v id=%d len=%d h=%08x", c.name, dst, d.ID, len(b), payloadHash(b))
	if os.Getenv("SIM_DUMP") == "1" {
		fmt.Fprintf(os.Stderr, "DUMP id=%d %x\n", d.ID, b)
	}
	if n.OnSend != nil {
		n.OnSend(d)
	}
	short := false
	if plan.ShortWrite > 0 && len(b) > 1 && t.Bool(plan.ShortWrite, 1000, "f.short") {
		short = true
		n.R.Fault("short-write")
	}
	handled := false
	if n.Intercept != nil {
		var routes []Route
		routes, handled = n.Intercept(d)
		if handled {
			for _, rt := range routes {
				n.Inject(rt.D, rt.Delay)
			}
		}
	}
	if !handled {
		n.routeDefault(d, plan)
	}
	if short {
		return len(b) - 1, nil
	}
	return len(b), nil
}

func (n *Net) latency(plan *FaultPlan) time.Duration {
	t := n.R.Tape
	if plan.LongDelay > 0 && t.Bool(plan.LongDelay, 1000, "f.long") {
		n.R.Fault("long-delay")
		return plan.MinLatency + time.Duration(t.Range(0, int64(plan.LongDelayMax), "lat.long"))
	}
	if plan.MaxLatency <= plan.MinLatency {
		return plan.MinLatency
	}
	return plan.MinLatency + time.Duration(t.Range(0, int64(plan.MaxLatency-plan.MinLatency), "lat"))
}

func (n *Net) routeDefault(d *Datagram, plan *FaultPlan) {
	t := n.R.Tape
	if plan.Drop > 0 && t.Bool(plan.Drop, 1000, "f.drop") {
		n.R.Fault("drop")
		n.R.Log("drop id=%d", d.ID)
		n.mu.Lock()
		n.Dropped++
		n.mu.Unlock()
		return
	}
	if plan.Corrupt > 0 && len(d.Payload) > 0 && t.Bool(plan.Corrupt, 1000, "f.corrupt") {
		n.R.Fault("corrupt")
		i := t.Intn(len(d.Payload), "corrupt.pos")
		bit := t.Intn(8, "corrupt.bit")
		d.Payload[i] ^= 1 << bit
		d.Note += fmt.Sprintf("corrupt@%d.%d ", i, bit)
	}
	lat := n.latency(plan)
	n.Inject(d, lat)
	if plan.Dup > 0 && t.Bool(plan.Dup, 1000, "f.dup") {
		n.R.Fault("duplicate")
		n.mu.Lock()
		n.nextID++
		dd := *d
		dd.ID = n.nextID
		dd.OrigID = d.ID
		dd.Note += "dup "
		dd.Payload = append([]byte(nil), d.Payload...)
		n.mu.Unlock()
		dlat := n.latency(plan)
		if plan.DupSameInstant > 0 && t.Bool(plan.DupSameInstant, 1000, "f.dupsame") {
			dlat = lat // both copies reach the receiver at the same instant (same receive timestamp)
			n.R.Fault("duplicate-at-the-same-instant")
		}
		n.Inject(&dd, dlat)
	}
}

// NewDatagram builds a datagram that did not originate from a socket (attacker).
func (n *Net) NewDatagram(src, dst netip.AddrPort, payload []byte, note string) *Datagram {
	n.mu.Lock()
	defer n.mu.Unlock()
	n.nextID++
	return &Datagram{ID: n.nextID, Src: src, Dst: dst, Payload: payload, SentAt: time.Now(), Note: note}
}

// Inject puts d on the wire: it arrives delay after it left the sender at whatever
// socket is bound to d.Dst at that instant.
func (n *Net) Inject(d *Datagram, delay time.Duration) {
	at := d.SentAt.Add(delay)
	if now := time.Now(); at.Before(now) {
		at = now
	}
	n.R.At(at, func() { n.deliver(d) })
}

func (n *Net) deliver(d *Datagram) {
	n.mu.Lock()
	dst := netip.AddrPortFrom(d.Dst.Addr().Unmap(), d.Dst.Port())
	cands := append([]*UDPConn(nil), n.bound[dst]...)
	// wildcard binds
	if h := n.hosts[dst.Addr()]; h != nil {
		for ap, l := range n.bound {
			if ap.Port() == dst.Port() && ap.Addr().IsUnspecified() && len(l) > 0 && l[0].host == h {
				cands = append(cands, l...)
			}
		}
	}
	if len(cands) == 0 || cands[0].host.Node.Dead {
		n.Dropped++
		n.mu.Unlock()
		n.R.Log("deliver id=%d -> %v nobody", d.ID, dst)
		return
	}
	sort.Slice(cands, func(i, j int) bool { return cands[i].name < cands[j].name })
	n.mu.Unlock()
	c := cands[0]
	if len(cands) > 1 {
		c = cands[n.R.Tape.Intn(len(cands), "reuseport")]
	}
	n.mu.Lock()
	now := time.Now()
	d.ArrivedAt = now
	d.RxStamp = c.host.Clock.At(now)
	d.DstConn = c
	c.rxq = append(c.rxq, d)
	n.DeliveredN++
	if n.deliveredByID == nil {
		n.deliveredByID = map[uint64]*Datagram{}
	}
	n.deliveredByID[d.ID] = d
	n.mu.Unlock()
	n.R.Log("deliver id=%d -> %s", d.ID, c.name)
	if n.OnDeliver != nil {
		n.OnDeliver(d)
	}
}

// ---- receive ------------------------------------------------------------------------

func (c *UDPConn) recv() (*Datagram, error) {
	n := c.net
	n.mu.Lock()
	id := c.opID("recv")
	dl := c.rdl
	n.mu.Unlock()
	res := n.R.Park(&simcore.Op{ID: id, Node: c.host.Node, Deadline: dl, Ready: func() bool {
		n.mu.Lock()
		defer n.mu.Unlock()
		return len(c.rxq) > 0 || c.closed
	}})
	if res.Killed {
		runtimeGoexit()
	}
	n.mu.Lock()
	defer n.mu.Unlock()
	if c.closed {
		return nil, errClosed
	}
	if len(c.rxq) == 0 {
		n.R.Log("recv %s timeout", c.name)
		return nil, timeoutError{}
	}
	d := c.rxq[0]
	c.rxq = c.rxq[1:]
	return d, nil
}

// ReadMsgUDPAddrPort delivers the next datagram with its receive timestamp as a
// control message in the form the kernel would produce.
func (c *UDPConn) ReadMsgUDPAddrPort(b, oob []byte) (n, oobn, flags int, addr netip.AddrPort, err error) {
	d, err := c.recv()
	if err != nil {
		return 0, 0, 0, netip.AddrPort{}, err
	}
	net_ := c.net
	plan := &net_.Plan
	if net_.PlanFor != nil {
		if p := net_.PlanFor(d, c); p != nil {
			plan = p
		}
	}
	t := net_.R.Tape
	if plan.ReadErr > 0 && t.Bool(plan.ReadErr, 1000, "f.rerr") {
		net_.R.Fault("read-error")
		net_.R.Log("recv %s id=%d rerr", c.name, d.ID)
		return 0, 0, 0, netip.AddrPort{}, errors.New("simnet: read: connection refused")
	}
	n = copy(b, d.Payload)
	if n < len(d.Payload) {
		flags |= unix.MSG_TRUNC
	}
	if plan.ReadFlags > 0 && t.Bool(plan.ReadFlags, 1000, "f.rflags") {
		net_.R.Fault("read-flags")
		flags |= unix.MSG_CTRUNC
	}
	if c.tsOpts != 0 || c.tsNS {
		switch {
		case plan.RxStampMissing > 0 && t.Bool(plan.RxStampMissing, 1000, "f.rxmiss"):
			net_.R.Fault("rx-stamp-missing")
		case c.tsNS || (plan.RxStampNS > 0 && t.Bool(plan.RxStampNS, 1000, "f.rxns")):
			if !c.tsNS {
				net_.R.Fault("rx-stamp-ns-form")
			}
			oobn = putCmsgTimespec(oob, d.RxStamp)
			if oobn == 0 {
				flags |= unix.MSG_CTRUNC // the control buffer handed in cannot hold the message
			}
		default:
			oobn = putCmsgTimestamping(oob, d.RxStamp)
			if oobn == 0 {
				flags |= unix.MSG_CTRUNC
			}
		}
	}
	net_.mu.Lock()
	c.LastRecv = d
	c.Reads++
	net_.mu.Unlock()
	net_.R.Log("recv %s id=%d n=%d", c.name, d.ID, n)
	if net_.OnRecv != nil {
		net_.OnRecv(c, d)
	}
	return n, oobn, flags, d.Src, nil
}

func (c *UDPConn) ReadFrom(b []byte) (int, net.Addr, error) {
	d, err := c.recv()
	if err != nil {
		return 0, nil, err
	}
	n := copy(b, d.Payload)
	c.net.mu.Lock()
	c.LastRecv = d
	c.Reads++
	c.net.mu.Unlock()
	c.net.R.Log("recv %s id=%d n=%d", c.name, d.ID, n)
	return n, &net.UDPAddr{IP: d.Src.Addr().AsSlice(), Port: int(d.Src.Port())}, nil
}

func (c *UDPConn) ReadFromUDPAddrPort(b []byte) (int, netip.AddrPort, error) {
	d, err := c.recv()
	if err != nil {
		return 0, netip.AddrPort{}, err
	}
	n := copy(b, d.Payload)
	c.net.mu.Lock()
	c.LastRecv = d
	c.Reads++
	c.net.mu.Unlock()
	return n, d.Src, nil
}

// QueueLen reports datagrams waiting on the socket.
func (c *UDPConn) QueueLen() int { c.net.mu.Lock(); defer c.net.mu.Unlock(); return len(c.rxq) }

// ---- control messages ---------------------------------------------------------------

const cmsgHdrLen = 16 // linux/amd64: uint64 len, int32 level, int32 type

func align8(n int) int { return (n + 7) &^ 7 }

func putCmsgHdr(b []byte, length, level, typ int) {
	binary.LittleEndian.PutUint64(b[0:], uint64(length))
	binary.LittleEndian.PutUint32(b[8:], uint32(int32(level)))
	binary.LittleEndian.PutUint32(b[12:], uint32(int32(typ)))
}

// putCmsgTimestamping writes SOL_SOCKET/SO_TIMESTAMPING_NEW with the software
// timestamp in ts[0] (scm_timestamping64).
func putCmsgTimestamping(b []byte, ts time.Time) int {
	total := cmsgHdrLen + 48
	if len(b) < total {
		return 0
	}
	for i := range b[:total] {
		b[i] = 0
	}
	putCmsgHdr(b, total, unix.SOL_SOCKET, unix.SO_TIMESTAMPING_NEW)
	binary.LittleEndian.PutUint64(b[16:], uint64(ts.Unix()))
	binary.LittleEndian.PutUint64(b[24:], uint64(ts.Nanosecond()))
	return total
}

func putCmsgTimespec(b []byte, ts time.Time) int {
	total := cmsgHdrLen + 16
	if len(b) < total {
		return 0
	}
	putCmsgHdr(b, total, unix.SOL_SOCKET, unix.SCM_TIMESTAMPNS)
	binary.LittleEndian.PutUint64(b[16:], uint64(ts.Unix()))
	binary.LittleEndian.PutUint64(b[24:], uint64(ts.Nanosecond()))
	return total
}

// ---- stand-ins for golang.org/x/sys/unix ------------------------------------------

func connByFd(fd int) *UDPConn {
	n := Active()
	if n == nil {
		return nil
	}
	n.mu.Lock()
	defer n.mu.Unlock()
	return n.conns[fd]
}

func SetsockoptInt(fd, level, opt, value int) error {
	c := connByFd(fd)
	if c == nil {
		return unix.EBADF
	}
	c.net.mu.Lock()
	defer c.net.mu.Unlock()
	if level == unix.SOL_SOCKET {
		switch opt {
		case unix.SO_REUSEPORT:
			c.reusePort = value != 0
		case unix.SO_TIMESTAMPING_NEW:
			c.tsOpts = value
		case unix.SO_TIMESTAMPNS:
			c.tsNS = value != 0
		}
	}
	// the traffic class is set per address family: the other family's option does not exist
	// on the socket
	if level == unix.IPPROTO_IP && opt == unix.IP_TOS {
		if !c.local.Addr().Is4() && !c.local.Addr().Is4In6() {
			return unix.ENOPROTOOPT
		}
		c.TOS = value
	}
	if level == unix.IPPROTO_IPV6 && opt == unix.IPV6_TCLASS {
		if c.local.Addr().Is4() {
			return unix.ENOPROTOOPT
		}
		c.TOS = value
	}
	return nil
}

func Syscall(trap, a1, a2, a3 uintptr) (r1, r2 uintptr, err syscall.Errno) {
	return 0, 0, syscall.EOPNOTSUPP
}

// Poll waits until the socket's error queue has a readable entry or the timeout
// (milliseconds) passes.
func Poll(fds []unix.PollFd, timeout int) (int, error) {
	if len(fds) != 1 {
		return 0, unix.EINVAL
	}
	c := connByFd(int(fds[0].Fd))
	if c == nil {
		return 0, unix.EBADF
	}
	n := c.net
	n.mu.Lock()
	id := c.opID("poll")
	n.mu.Unlock()
	ready := func() bool {
		n.mu.Lock()
		defer n.mu.Unlock()
		return len(c.erq) > 0 && !c.erq[0].availAt.After(time.Now())
	}
	res := n.R.Park(&simcore.Op{ID: id, Node: c.host.Node, NoDelay: true,
		Deadline: time.Now().Add(time.Duration(timeout) * time.Millisecond), Ready: ready})
	if res.Killed {
		runtimeGoexit()
	}
	if ready() {
		fds[0].Revents = unix.POLLERR
		return 1, nil
	}
	return 0, nil
}

// Recvmsg reads one entry of the error queue (flags must contain MSG_ERRQUEUE).
func Recvmsg(fd int, p, oob []byte, flags int) (n, oobn int, recvflags int, from unix.Sockaddr, err error) {
	c := connByFd(fd)
	if c == nil {
		return 0, 0, 0, nil, unix.EBADF
	}
	if flags&unix.MSG_ERRQUEUE == 0 {
		return 0, 0, 0, nil, unix.EINVAL
	}
	c.net.mu.Lock()
	defer c.net.mu.Unlock()
	if len(c.erq) == 0 || c.erq[0].availAt.After(time.Now()) {
		return 0, 0, 0, nil, unix.EAGAIN
	}
	e := c.erq[0]
	c.erq = c.erq[1:]
	// the timestamping message, then the extended error with the offender's address behind it:
	// a sockaddr_in (16 bytes) on an IPv4 socket, a sockaddr_in6 (28 bytes) on an IPv6 socket
	v4 := c.local.Addr().Is4()
	errLen := 16 + 16 + 16
	if !v4 {
		errLen = 16 + 16 + 28
	}
	total := 64 + (errLen+7)&^7
	if len(oob) < total {
		return 0, 0, unix.MSG_CTRUNC | unix.MSG_ERRQUEUE, nil, nil
	}
	for i := range oob[:total] {
		oob[i] = 0
	}
	putCmsgTimestamping(oob, e.stamp)
	b := oob[64:]
	if v4 {
		putCmsgHdr(b, errLen, unix.SOL_IP, unix.IP_RECVERR)
	} else {
		putCmsgHdr(b, errLen, unix.SOL_IPV6, unix.IPV6_RECVERR)
	}
	// struct sock_extended_err { u32 errno; u8 origin, type, code, pad; u32 info; u32 data; }
	binary.LittleEndian.PutUint32(b[16:], uint32(unix.ENOMSG))
	b[20] = unix.SO_EE_ORIGIN_TIMESTAMPING
	binary.LittleEndian.PutUint32(b[28:], e.id)
	c.net.R.Log("errq %s id=%d", c.name, e.id)
	return 0, total, unix.MSG_ERRQUEUE, nil, nil
}

// Delivered returns the datagram with the given id once it has reached a socket queue.
func (n *Net) Delivered(id uint64) *Datagram {
	n.mu.Lock()
	defer n.mu.Unlock()
	return n.deliveredByID[id]
}

func payloadHash(b []byte) uint32 {
	h := uint32(2166136261)
	for _, c := range b {
		h = (h ^ uint32(c)) * 16777619
	}
	return h
}
