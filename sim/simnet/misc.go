package simnet

import "runtime"

func runtimeGoexit() { runtime.Goexit() }
