package simnet

import (
	"crypto/tls"
	"errors"
	"net"
)

// TLSListen stands in for tls.Listen.
func TLSListen(network, laddr string, config *tls.Config) (net.Listener, error) {
	return nil, errors.New("simnet: TLSListen not wired in this world")
}

// TLSDialWithDialer stands in for tls.DialWithDialer.
func TLSDialWithDialer(dialer *net.Dialer, network, addr string, config *tls.Config) (*tls.Conn, error) {
	n := Active()
	if n == nil || n.DialTLS == nil {
		return nil, errors.New("simnet: no TLS dialer in this world")
	}
	return n.DialTLS(dialer, network, addr, config)
}
