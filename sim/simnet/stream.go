package simnet

import (
	"crypto/tls"
	"errors"
	"fmt"
	"io"
	"net"
	"net/netip"
	"strconv"
	"time"

	"verif.local/sim/simcore"
)

// In-memory byte streams (simulated TCP) that carry TLS: in-order bytes,
// tape-chosen segmentation and delays, reset or FIN at a chosen byte offset.

// StreamPlan holds the fault knobs of one connection.
type StreamPlan struct {
	MinLatency, MaxLatency time.Duration
	Segment                bool // split writes into tape-chosen segments
	// CutAfter[dir] >= 0: the direction (0 = dialer->listener, 1 = listener->dialer)
	// breaks after that many bytes have been delivered; -1 = never.
	CutAfter [2]int64
	CutReset bool // true: reader gets a reset error, false: clean EOF (FIN)
	Refuse   bool // connection refused at dial
}

func DefaultStreamPlan() StreamPlan {
	return StreamPlan{MinLatency: 100 * time.Microsecond, MaxLatency: 100 * time.Microsecond, CutAfter: [2]int64{-1, -1}}
}

type halfPipe struct {
	buf       []byte // delivered, unread
	eof       bool   // no more data will arrive (FIN seen)
	reset     bool
	sent      int64 // bytes handed to the network so far
	delivered int64
	lastAt    time.Time // delivery instant of the last scheduled segment (keeps order)
	closed    bool      // writer closed
}

// StreamConn is one end of a simulated TCP connection.
type StreamConn struct {
	net    *Net
	host   *Host
	name   string
	id     int
	dir    int // 0 = dialer side, 1 = listener side
	peer   *StreamConn
	rx     *halfPipe // data flowing towards this end
	local  netip.AddrPort
	remote netip.AddrPort
	plan   *StreamPlan
	rdl    time.Time
	closed bool
	opSeq  uint64

	BytesRead, BytesWritten int64
	Reads                   int
}

func (c *StreamConn) opID(kind string) string {
	c.opSeq++
	return kind + ":" + c.name + ":" + strconv.FormatUint(c.opSeq, 10)
}

func (c *StreamConn) Read(p []byte) (int, error) {
	n := c.net
	n.mu.Lock()
	id := c.opID("sread")
	dl := c.rdl
	n.mu.Unlock()
	res := n.R.Park(&simcore.Op{ID: id, Node: c.host.Node, Deadline: dl, Ready: func() bool {
		n.mu.Lock()
		defer n.mu.Unlock()
		return len(c.rx.buf) > 0 || c.rx.eof || c.rx.reset || c.closed
	}})
	if res.Killed {
		runtimeGoexit()
	}
	n.mu.Lock()
	defer n.mu.Unlock()
	if c.closed {
		return 0, net.ErrClosed
	}
	if len(c.rx.buf) > 0 {
		k := copy(p, c.rx.buf)
		c.rx.buf = c.rx.buf[k:]
		c.BytesRead += int64(k)
		c.Reads++
		n.R.Log("sread %s n=%d", c.name, k)
		return k, nil
	}
	if c.rx.reset {
		n.R.Log("sread %s reset", c.name)
		return 0, errors.New("simnet: read: connection reset by peer")
	}
	if c.rx.eof {
		n.R.Log("sread %s eof", c.name)
		return 0, io.EOF
	}
	n.R.Log("sread %s timeout", c.name)
	return 0, timeoutError{}
}

func (c *StreamConn) Write(p []byte) (int, error) {
	n := c.net
	n.mu.Lock()
	id := c.opID("swrite")
	n.mu.Unlock()
	res := n.R.Park(&simcore.Op{ID: id, Node: c.host.Node, NoDelay: true, Ready: func() bool { return true }})
	if res.Killed {
		runtimeGoexit()
	}
	n.mu.Lock()
	if c.closed {
		n.mu.Unlock()
		return 0, net.ErrClosed
	}
	tx := c.peer.rx // the pipe towards the peer
	if tx.reset {
		n.mu.Unlock()
		return 0, errors.New("simnet: write: broken pipe")
	}
	t := n.R.Tape
	data := append([]byte(nil), p...)
	// segmentation
	var segs [][]byte
	if c.plan.Segment && len(data) > 1 {
		for len(data) > 0 {
			k := len(data)
			switch t.Pick([]uint64{2, 3, 3}, "seg.kind") {
			case 1:
				k = 1 + t.Intn(len(data), "seg.len")
			case 2:
				k = 1 + t.Intn(min(len(data), 8), "seg.small")
			}
			segs = append(segs, data[:k])
			data = data[k:]
		}
	} else {
		segs = [][]byte{data}
	}
	now := time.Now()
	cut := c.plan.CutAfter[c.dir]
	for _, s := range segs {
		if cut >= 0 && tx.sent >= cut {
			break
		}
		if cut >= 0 && tx.sent+int64(len(s)) > cut {
			s = s[:cut-tx.sent]
		}
		tx.sent += int64(len(s))
		lat := c.plan.MinLatency
		if c.plan.MaxLatency > c.plan.MinLatency {
			lat += time.Duration(t.Range(0, int64(c.plan.MaxLatency-c.plan.MinLatency), "slat"))
		}
		at := now.Add(lat)
		if at.Before(tx.lastAt) {
			at = tx.lastAt // TCP delivers in order
		}
		tx.lastAt = at
		seg := s
		n.R.At(at, func() {
			n.mu.Lock()
			if !tx.reset && !tx.eof {
				tx.buf = append(tx.buf, seg...)
				tx.delivered += int64(len(seg))
			}
			n.mu.Unlock()
			n.R.Log("sdeliver %s n=%d", c.peer.name, len(seg))
		})
	}
	if cut >= 0 && tx.sent >= cut && !tx.closed {
		// the connection breaks here
		tx.closed = true
		rst := c.plan.CutReset
		at := tx.lastAt
		if at.Before(now) {
			at = now
		}
		n.R.Fault(map[bool]string{true: "stream-reset", false: "stream-fin"}[rst])
		n.R.At(at, func() {
			n.mu.Lock()
			if rst {
				tx.reset = true
				tx.buf = nil
			} else {
				tx.eof = true
			}
			n.mu.Unlock()
			n.R.Log("scut %s reset=%v", c.peer.name, rst)
		})
	}
	c.BytesWritten += int64(len(p))
	n.mu.Unlock()
	n.R.Log("swrite %s n=%d segs=%d h=%08x", c.name, len(p), len(segs), payloadHash(p))
	return len(p), nil
}

func (c *StreamConn) Close() error {
	n := c.net
	n.mu.Lock()
	defer n.mu.Unlock()
	if c.closed {
		return net.ErrClosed
	}
	c.closed = true
	tx := c.peer.rx
	if !tx.closed {
		tx.closed = true
		at := tx.lastAt
		if now := time.Now(); at.Before(now) {
			at = now
		}
		n.R.At(at, func() {
			n.mu.Lock()
			tx.eof = true
			n.mu.Unlock()
		})
	}
	n.R.Log("sclose %s", c.name)
	return nil
}

func (c *StreamConn) LocalAddr() net.Addr {
	return &net.TCPAddr{IP: c.local.Addr().AsSlice(), Port: int(c.local.Port())}
}
func (c *StreamConn) RemoteAddr() net.Addr {
	return &net.TCPAddr{IP: c.remote.Addr().AsSlice(), Port: int(c.remote.Port())}
}
func (c *StreamConn) SetDeadline(t time.Time) error {
	c.net.mu.Lock()
	c.rdl = t
	c.net.mu.Unlock()
	return nil
}
func (c *StreamConn) SetReadDeadline(t time.Time) error  { return c.SetDeadline(t) }
func (c *StreamConn) SetWriteDeadline(t time.Time) error { return nil }
func (c *StreamConn) Name() string                       { return c.name }

// StreamListener accepts simulated TCP connections.
type StreamListener struct {
	net     *Net
	host    *Host
	addr    netip.AddrPort
	backlog []*StreamConn
	closed  bool
	tlsCfg  *tls.Config
	opSeq   uint64
	// PlanFor decides the fault plan of each incoming connection (nil = default).
	PlanFor  func(k int) *StreamPlan
	accepted int
}

func (l *StreamListener) Addr() net.Addr {
	return &net.TCPAddr{IP: l.addr.Addr().AsSlice(), Port: int(l.addr.Port())}
}

func (l *StreamListener) Close() error {
	l.net.mu.Lock()
	l.closed = true
	delete(l.net.streamListeners, l.addr)
	l.net.mu.Unlock()
	return nil
}

// AcceptRaw returns the next raw connection.
func (l *StreamListener) AcceptRaw() (*StreamConn, error) {
	n := l.net
	n.mu.Lock()
	l.opSeq++
	id := fmt.Sprintf("accept:%s/%d:%d", l.host.Node.Name, l.addr.Port(), l.opSeq)
	n.mu.Unlock()
	res := n.R.Park(&simcore.Op{ID: id, Node: l.host.Node, Ready: func() bool {
		n.mu.Lock()
		defer n.mu.Unlock()
		return len(l.backlog) > 0 || l.closed
	}})
	if res.Killed {
		runtimeGoexit()
	}
	n.mu.Lock()
	defer n.mu.Unlock()
	if l.closed {
		return nil, net.ErrClosed
	}
	c := l.backlog[0]
	l.backlog = l.backlog[1:]
	return c, nil
}

// Accept returns a *tls.Conn when the listener was made by TLSListen.
func (l *StreamListener) Accept() (net.Conn, error) {
	c, err := l.AcceptRaw()
	if err != nil {
		return nil, err
	}
	if l.tlsCfg != nil {
		return tls.Server(c, l.tlsCfg), nil
	}
	return c, nil
}

// ListenStream binds a simulated TCP listener (worlds call it from the root goroutine).
func (n *Net) ListenStream(addr string, cfg *tls.Config) (*StreamListener, error) {
	ap, err := netip.ParseAddrPort(addr)
	if err != nil {
		return nil, err
	}
	h := n.hosts[ap.Addr().Unmap()]
	if h == nil {
		return nil, fmt.Errorf("simnet: listen %v: cannot assign requested address", ap)
	}
	n.mu.Lock()
	defer n.mu.Unlock()
	if n.streamListeners == nil {
		n.streamListeners = map[netip.AddrPort]*StreamListener{}
	}
	if n.streamListeners[ap] != nil {
		return nil, fmt.Errorf("simnet: listen %v: address already in use", ap)
	}
	l := &StreamListener{net: n, host: h, addr: ap, tlsCfg: cfg}
	n.streamListeners[ap] = l
	return l, nil
}

// TLSListen stands in for tls.Listen.
func TLSListen(network, laddr string, config *tls.Config) (net.Listener, error) {
	n := Active()
	if n == nil {
		return nil, errors.New("simnet: no active network")
	}
	return n.ListenStream(laddr, config)
}

// DialStream opens a simulated TCP connection from host `from` to addr.
func (n *Net) DialStream(from *Host, addr string) (*StreamConn, error) {
	hostS, portS, err := net.SplitHostPort(addr)
	if err != nil {
		return nil, err
	}
	port, err := strconv.Atoi(portS)
	if err != nil {
		return nil, err
	}
	ip, err := netip.ParseAddr(hostS)
	if err != nil {
		var ok bool
		if ip, ok = n.Names[hostS]; !ok {
			return nil, fmt.Errorf("simnet: dial: lookup %s: no such host", hostS)
		}
	}
	ap := netip.AddrPortFrom(ip.Unmap(), uint16(port))
	n.mu.Lock()
	n.streamSeq++
	k := n.streamSeq
	id := fmt.Sprintf("dial:%s:%d", from.Node.Name, k)
	n.mu.Unlock()
	res := n.R.Park(&simcore.Op{ID: id, Node: from.Node, NoDelay: true, Ready: func() bool { return true }})
	if res.Killed {
		runtimeGoexit()
	}
	n.mu.Lock()
	defer n.mu.Unlock()
	l := n.streamListeners[ap]
	if l == nil || l.closed || l.host.Node.Dead {
		n.R.Log("dial %s -> %v refused", from.Node.Name, ap)
		return nil, errors.New("simnet: dial: connection refused")
	}
	plan := DefaultStreamPlan()
	if l.PlanFor != nil {
		if p := l.PlanFor(l.accepted); p != nil {
			plan = *p
		}
	}
	l.accepted++
	if plan.Refuse {
		n.R.Fault("connection-refused")
		return nil, errors.New("simnet: dial: connection refused")
	}
	p := n.nextEph[from.Addrs[0]]
	if p == 0 {
		p = 40000
	}
	n.nextEph[from.Addrs[0]] = p + 1
	local := netip.AddrPortFrom(from.Addrs[0], p)
	a := &StreamConn{net: n, host: from, id: k, dir: 0, rx: &halfPipe{}, local: local, remote: ap, plan: &plan,
		name: fmt.Sprintf("%s>%s#%d", from.Node.Name, l.host.Node.Name, k)}
	b := &StreamConn{net: n, host: l.host, id: k, dir: 1, rx: &halfPipe{}, local: ap, remote: local, plan: &plan,
		name: fmt.Sprintf("%s<%s#%d", l.host.Node.Name, from.Node.Name, k)}
	a.peer, b.peer = b, a
	l.backlog = append(l.backlog, b)
	n.R.Log("dial %s", a.name)
	return a, nil
}

// TLSDialWithDialer stands in for tls.DialWithDialer: it dials from the host
// the world designated as the TLS client host and runs the real client handshake.
func TLSDialWithDialer(dialer *net.Dialer, network, addr string, config *tls.Config) (*tls.Conn, error) {
	n := Active()
	if n == nil || n.TLSClientHost == nil {
		return nil, errors.New("simnet: no TLS client host in this world")
	}
	raw, err := n.DialStream(n.TLSClientHost, addr)
	if err != nil {
		return nil, err
	}
	if dialer != nil && dialer.Timeout > 0 {
		raw.SetDeadline(time.Now().Add(dialer.Timeout))
	}
	// tls.DialWithDialer derives ServerName from addr when the config has none
	if config.ServerName == "" && !config.InsecureSkipVerify {
		host, _, _ := net.SplitHostPort(addr)
		c2 := config.Clone()
		c2.ServerName = host
		config = c2
	}
	conn := tls.Client(raw, config)
	if err := conn.Handshake(); err != nil {
		raw.Close()
		return nil, err
	}
	raw.SetDeadline(time.Time{})
	return conn, nil
}
