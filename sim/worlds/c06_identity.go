//go:build go1.25

package worlds

import (
	"fmt"
	"net/netip"
	"time"

	"github.com/scionproto/scion/pkg/slayers"

	"example.com/scion-time/net/ntp"

	"verif.local/sim/simcore"
	"verif.local/sim/simnet"
)

// Listener-level part of C06 ("timestamps recorded for one client are never served
// to another"): the store-level world drives handleRequest with client ids of its
// own; which id a listener derives from a packet is listener code. Here scripted
// clients with distinct identities talk to the real listeners - over IP distinct
// source addresses, over SCION distinct (ISD-AS, host) pairs including the same
// host address in two ASes and two hosts in one AS - and send interleaved-form
// requests whose origin names a receive timestamp the server handed to *another*
// identity. Such a request must get a basic reply; one naming the sender's own
// latest exchange normally gets an interleaved one (counted, not required: a
// missing kernel transmit timestamp legitimately drops the record).
type c06Exchange struct {
	rx       ntp.Time64
	kernelTx ntp.Time64
	fault    string // "", "missing", "late"
	twin     bool   // one of two requests that reached the listeners at the same instant
}

func c06IdentityWorld(r *simcore.Run) any {
	tp := r.Tape
	overSCION := tp.Bool(1, 2, "scion")
	type ident struct {
		ia   string // "" over IP
		host string
		port uint16
		// last reply this identity received
		lastRx ntp.Time64
		has    bool
		// its recent exchanges as seen on the wire: the receive timestamp the server reported,
		// and the kernel transmit timestamp of that reply (what the record must hold)
		ex []c06Exchange
	}
	var net *simnet.Net
	var srvHost *simnet.Host
	var cliNode *simcore.Node
	var spawn func(string, func())
	var ids []*ident
	var send func(id *ident, payload []byte) *simnet.Datagram
	sameInstant := false
	lat := func() time.Duration {
		if sameInstant {
			return 100 * time.Microsecond
		}
		return time.Duration(20+tp.Intn(200, "lat")) * time.Microsecond
	}
	if overSCION {
		scDrawFamily(r)
		w := newSCIONWorld(r, time.Duration(tp.Range(0, int64(time.Hour), "srvoff")), 1)
		w.startServers(2, tp.Bool(1, 2, "srvauth"), 0, nil, false)
		net, srvHost, cliNode, spawn = w.net, w.srv, w.cli.Node, w.goSafe
		other := map[bool]string{true: "fd00:1::77", false: "10.0.0.77"}[scV6]
		ids = []*ident{
			{ia: scCliIA.String(), host: scCliIP, port: 41001},
			{ia: scOthIA.String(), host: scCliIP, port: 41001}, // the same host address in another AS
			{ia: scCliIA.String(), host: other, port: 41001},   // another host of the first AS
		}
		var segs []int
		if tp.Bool(2, 3, "path") {
			segs = []int{2 + tp.Intn(4, "h")}
		}
		rtr := netip.AddrPortFrom(netip.MustParseAddr(scRouterIP(0)), scRouterPort)
		send = func(id *ident, payload []byte) *simnet.Datagram {
			ia := scCliIA
			if id.ia == scOthIA.String() {
				ia = scOthIA
			}
			raw := buildSCION(ia, scSrvIA, id.host, scSrvIP, id.port, scSvcPort, segs, 0, payload)
			d := net.NewDatagram(rtr, netip.AddrPortFrom(netip.MustParseAddr(scSrvIP), scSvcPort), raw, "scripted client "+id.ia+","+id.host)
			net.Inject(d, lat())
			return d
		}
	} else {
		ipDrawFamily(r)
		w := newIPWorld(r, time.Duration(tp.Range(0, int64(time.Hour), "srvoff")), 0)
		w.startListeners(2, nil)
		net, srvHost, cliNode, spawn = w.net, w.srv, w.cli.Node, w.goSafe
		ids = []*ident{{host: ipCliIP, port: 41001}, {host: ipAtkIP, port: 41001}}
		send = func(id *ident, payload []byte) *simnet.Datagram {
			d := net.NewDatagram(netip.AddrPortFrom(netip.MustParseAddr(id.host), id.port), netip.AddrPortFrom(netip.MustParseAddr(ipSrvIP), ipPort), payload, "scripted client "+id.host)
			net.Inject(d, lat())
			return d
		}
	}
	if tp.Bool(1, 2, "txfaults") {
		srvPlan := net.Plan
		srvPlan.TxStampMissing = uint64(tp.Intn(300, "txmiss"))
		srvPlan.TxStampLate = uint64(tp.Intn(300, "txlate"))
		net.PlanFor = func(d *simnet.Datagram, at *simnet.UDPConn) *simnet.FaultPlan {
			if at != nil && at.Host() == srvHost {
				return &srvPlan
			}
			return nil
		}
	}
	replies := map[uint64][]*simnet.Datagram{}
	net.OnSend = func(d *simnet.Datagram) {
		if d.SrcConn != nil && d.SrcConn.Host() == srvHost {
			replies[d.Cause] = append(replies[d.Cause], d)
		}
	}
	ntpOf := func(d *simnet.Datagram) []byte {
		if overSCION {
			p := parseSCION(d.Payload)
			if !p.ok || !p.isUDP {
				return nil
			}
			return p.pld
		}
		return d.Payload
	}
	nsteps := 8 + tp.Intn(30, "steps")
	served, cross, own := 0, 0, 0
	var hist []string
	spawn("driver", func() {
		defer r.Finish()
		for k := 0; k < nsteps && r.Violation() == nil; k++ {
			x := ids[tp.Intn(len(ids), "who")]
			var req ntp.Packet
			req.SetVersion(4)
			req.SetMode(ntp.ModeClient)
			now := time.Now()
			req.TransmitTime = ntp.Time64FromTime(now.Add(time.Duration(k+1) * time.Nanosecond))
			kind := "basic"
			var victim *ident
			var named *c06Exchange
			if overSCION && tp.Bool(1, 6, "echo") {
				// an SCMP echo request in between: answered by the same listener sockets, and of no
				// consequence for what they record about NTP exchanges afterwards
				ia := scCliIA
				if x.ia == scOthIA.String() {
					ia = scOthIA
				}
				raw := buildSCION(ia, scSrvIA, x.host, scSrvIP, 0, 0, nil, slayers.SCMPTypeEchoRequest, []byte("echo between exchanges"))
				e := net.NewDatagram(netip.AddrPortFrom(netip.MustParseAddr(scRouterIP(0)), scRouterPort), netip.AddrPortFrom(netip.MustParseAddr(scSrvIP), scSvcPort), raw, "scripted echo request")
				net.Inject(e, lat())
				if r.Sleep(fmt.Sprintf("echo:%d", k), cliNode, 5*time.Millisecond).Killed {
					return
				}
				if len(replies[e.ID]) != 1 {
					r.Fail("C06", "listener/replies", "step %d: echo request of (%s,%s): %d replies", k, x.ia, x.host, len(replies[e.ID]))
					return
				}
				r.Probe("echo-between-exchanges")
			}
			switch tp.Intn(4, "kind") {
			case 1: // interleaved form naming one of the sender's own latest exchanges
				if x.has {
					kind = "own"
					named = &x.ex[len(x.ex)-1]
					if len(x.ex) > 1 && tp.Bool(1, 3, "one-before") {
						named = &x.ex[len(x.ex)-2]
					}
					req.OriginTime = named.rx
					req.ReceiveTime = ntp.Time64FromTime(now.Add(-time.Millisecond))
				}
			case 3: // two basic requests that reach the listeners at the same instant
				kind = "twin"
			case 2: // interleaved form naming an exchange of another identity
				var cands []*ident
				for _, y := range ids {
					if y != x && y.has && (!x.has || y.lastRx != x.lastRx) {
						cands = append(cands, y)
					}
				}
				if len(cands) > 0 {
					victim = cands[tp.Intn(len(cands), "victim")]
					kind = "cross"
					req.OriginTime = victim.lastRx
					req.ReceiveTime = ntp.Time64FromTime(now.Add(-time.Millisecond))
				}
			}
			var b []byte
			ntp.EncodePacket(&b, &req)
			var d2 *simnet.Datagram
			if kind == "twin" {
				sameInstant = true
				req2 := req
				req2.TransmitTime.Fraction += 7
				var b2 []byte
				ntp.EncodePacket(&b2, &req2)
				d2 = send(x, b2)
			}
			d := send(x, b)
			sameInstant = false
			if r.Sleep(fmt.Sprintf("settle:%d", k), cliNode, 5*time.Millisecond).Killed {
				return
			}
			if d2 != nil {
				rs2 := replies[d2.ID]
				if len(rs2) != 1 {
					r.Fail("C06", "listener/replies", "step %d (twin request of %s,%s): %d replies", k, x.ia, x.host, len(rs2))
					return
				}
				if rp2, ok := decodeNTP(ntpOf(rs2[0])); ok {
					x.ex = append(x.ex, c06Exchange{rx: rp2.ReceiveTime, kernelTx: ntp.Time64FromTime(rs2[0].TxStamp), fault: rs2[0].TxStampFault, twin: true})
					r.Probe("same-instant-requests")
				}
			}
			rs := replies[d.ID]
			if len(rs) != 1 {
				r.Fail("C06", "listener/replies", "step %d (%s request of %s,%s): %d replies", k, kind, x.ia, x.host, len(rs))
				return
			}
			rp, ok := decodeNTP(ntpOf(rs[0]))
			if !ok {
				r.Fail("C06", "listener/undecodable", "step %d: the reply does not decode", k)
				return
			}
			served++
			interleaved := kind != "basic" && rp.OriginTime == req.ReceiveTime && rp.OriginTime != req.TransmitTime
			line := fmt.Sprintf("step %d: %s request of (%s,%s) -> interleaved=%v", k, kind, x.ia, x.host, interleaved)
			r.Log("%s", line)
			if len(hist) < 12 {
				hist = append(hist, line)
			}
			switch kind {
			case "cross":
				cross++
				if interleaved {
					r.Fail("C06", "listener/served-to-another-client", "%s: the request of (%s,%s) named the receive timestamp the server had handed to (%s,%s) and was served that client's recorded transmit time",
						line, x.ia, x.host, victim.ia, victim.host)
					return
				}
				if rp.OriginTime != req.TransmitTime {
					r.Fail("C06", "listener/origin", "%s: a basic reply must echo the request's transmit timestamp", line)
					return
				}
				r.Probe("cross-identity-request-served-basic")
			case "own":
				own++
				if interleaved {
					r.Probe("own-exchange-served-interleaved")
					// what is served is the pair on record: that exchange's receive timestamp with the
					// kernel transmit timestamp of that exchange's reply, or nothing
					// (a receive timestamp may name more than one exchange of this client: when the
					// first one's record was dropped, a request stamped with the same instant gets the
					// same timestamp again - the one on record is the one that may be served)
					var sameRx []c06Exchange
					for _, e := range x.ex {
						if e.rx == named.rx {
							sameRx = append(sameRx, e)
						}
					}
					matches, late, readable := false, false, false
					for _, e := range sameRx {
						matches = matches || (e.fault == "" && e.kernelTx == rp.TransmitTime)
						// (a receive timestamp that was bumped past a colliding one can lie at or beyond
						// the kernel transmit timestamp of its own reply - only where handling takes no
						// time at all; "later than that receive timestamp" then wins: the record holds
						// the receive timestamp plus a nanosecond)
						if e.fault == "" && !e.kernelTx.After(e.rx) && rp.TransmitTime.After(e.rx) &&
							ntp.TimeFromTime64(rp.TransmitTime, now).Sub(ntp.TimeFromTime64(e.rx, now)) <= 2*time.Nanosecond {
							matches = true
							r.Probe("kernel-timestamp-not-after-bumped-receive-timestamp")
						}
						late = late || e.fault == "late"
						readable = readable || e.fault == ""
					}
					switch {
					case matches:
						r.Probe("served-pair-is-kernel-pair")
					case late:
						r.Probe("served-after-late-kernel-timestamp")
					case !readable:
						r.Fail("C06", "listener/served-without-kernel-timestamp", "%s: the reply to the exchange named (receive timestamp %s) left without a readable kernel transmit timestamp, yet the exchange was served in interleaved mode (transmit %s)",
							line, t64s(named.rx), t64s(rp.TransmitTime))
						return
					default:
						r.Fail("C06", "listener/pair", "%s: served transmit timestamp %s, the kernel transmit timestamp of that exchange's reply was %s (same-instant twin: %v)",
							line, t64s(rp.TransmitTime), t64s(named.kernelTx), named.twin)
						return
					}
				} else {
					r.Probe("own-exchange-served-basic")
				}
			}
			x.lastRx, x.has = rp.ReceiveTime, true
			x.ex = append(x.ex, c06Exchange{rx: rp.ReceiveTime, kernelTx: ntp.Time64FromTime(rs[0].TxStamp), fault: rs[0].TxStampFault, twin: kind == "twin"})
		}
	})
	reason := r.Loop(2_000_000, 0)
	r.SetVT()
	r.Drain()
	if reason != "" && r.Violation() == nil {
		r.Fail("harness", "c06i/"+reason, "scheduler stopped: %s pending=%v", reason, r.IdlePending)
	}
	r.Count("requests", int64(served))
	r.Probe("listener-identity-run")
	return map[string]any{"listener_identity_run": true, "over_scion": overSCION, "requests": served, "cross_identity": cross, "own": own, "history": hist}
}
