//go:build go1.25

package worlds

import (
	"context"
	"crypto/rand"
	"encoding/binary"
	"fmt"
	"log/slog"
	"net/netip"
	"time"

	"github.com/google/gopacket"
	"github.com/scionproto/scion/pkg/addr"
	"github.com/scionproto/scion/pkg/slayers"
	"github.com/scionproto/scion/pkg/snet"

	"example.com/scion-time/core/client"
	"example.com/scion-time/core/server"
	"example.com/scion-time/net/ntp"

	"verif.local/sim/simcore"
	"verif.local/sim/simnet"
	"verif.local/sim/simsync"
)

// The SCION half of C05: the real SCIONClient against real runSCIONServer
// listeners through a relay router. An on-path adversary at the router puts up to
// three crafted SCION packets in front of (or in place of) the genuine response:
// the genuine response re-addressed (other source ISD-AS or host, other
// destination ISD-AS or host), its NTP payload with one field changed, replays,
// the reflected request, SCMP messages, random bytes. With up to three crafted
// packets per exchange the client's single retry is regularly used up before the
// packet of interest arrives. The oracle is the statement's predicate applied to
// the packet the client consumed last when it reported an offset.

// scRebuild re-serialises a parsed SCION/UDP packet after mod changed its layers.
func scRebuild(p *scionPkt, mod func(s *slayers.SCION, u *slayers.UDP, pld *[]byte)) []byte {
	if !p.isUDP || p.hasE2E {
		return nil
	}
	s, u := p.scn, p.udp
	pld := append([]byte(nil), p.pld...)
	mod(&s, &u, &pld)
	buffer := gopacket.NewSerializeBuffer()
	opts := gopacket.SerializeOptions{ComputeChecksums: true, FixLengths: true}
	if err := gopacket.Payload(pld).SerializeTo(buffer, opts); err != nil {
		return nil
	}
	u.SetNetworkLayerForChecksum(&s)
	s.NextHdr = slayers.L4UDP
	if err := u.SerializeTo(buffer, opts); err != nil {
		return nil
	}
	if err := s.SerializeTo(buffer, opts); err != nil {
		return nil
	}
	return append([]byte(nil), buffer.Bytes()...)
}

// scWithExtensions re-serialises a SCION/UDP packet with a hop-by-hop and/or an end-to-end
// extension header (one option each, of kinds a listener has no use for) in front of UDP.
func scWithExtensions(p *scionPkt, hbh, e2e bool) []byte {
	if !p.isUDP || p.hasE2E {
		return nil
	}
	s, u := p.scn, p.udp
	buffer := gopacket.NewSerializeBuffer()
	opts := gopacket.SerializeOptions{ComputeChecksums: true, FixLengths: true}
	if err := gopacket.Payload(append([]byte(nil), p.pld...)).SerializeTo(buffer, opts); err != nil {
		return nil
	}
	u.SetNetworkLayerForChecksum(&s)
	s.NextHdr = slayers.L4UDP
	if err := u.SerializeTo(buffer, opts); err != nil {
		return nil
	}
	if e2e {
		e := slayers.EndToEndExtn{}
		e.NextHdr = s.NextHdr
		e.Options = append(e.Options, &slayers.EndToEndOption{OptType: 253, OptData: make([]byte, 16)})
		if err := e.SerializeTo(buffer, opts); err != nil {
			return nil
		}
		s.NextHdr = slayers.End2EndClass
	}
	if hbh {
		h := slayers.HopByHopExtn{}
		h.NextHdr = s.NextHdr
		h.Options = append(h.Options, &slayers.HopByHopOption{OptType: 7, OptData: make([]byte, 6)})
		if err := h.SerializeTo(buffer, opts); err != nil {
			return nil
		}
		s.NextHdr = slayers.HopByHopClass
	}
	if err := s.SerializeTo(buffer, opts); err != nil {
		return nil
	}
	return append([]byte(nil), buffer.Bytes()...)
}

func c05SCIONWorld(r *simcore.Run) any {
	tp := r.Tape
	if Root.SCIONClockClients != nil && r.Index%40 == 3 {
		// "when NTS is enabled" is decided by the wiring: every client of a clock configured for
		// NTS must have it on (each with a key-exchange fetcher of its own)
		w0 := newSCIONWorld(r, 0, 1)
		laddr, raddr := w0.udpAddrs()
		cs := Root.SCIONClockClients(quietLog(), laddr, raddr, []string{"nts"}, "ke.example.net:4460")
		for i, c := range cs {
			if !c.Auth.NTSEnabled {
				r.Fail("C05", "wiring/nts-not-enabled", "client %d of %d of a SCION reference clock configured with auth mode nts has NTS off: it accepts unauthenticated responses", i, len(cs))
				return nil
			}
			for j := 0; j < i; j++ {
				if &cs[j].Auth.NTSKEFetcher == &c.Auth.NTSKEFetcher {
					r.Fail("C05", "wiring/shared-fetcher", "clients %d and %d share one key-exchange fetcher", j, i)
					return nil
				}
			}
		}
		if len(cs) > 0 {
			r.Probe("nts-enabled-on-every-wired-client")
		}
		r.Count("attacks", 1)
		r.Count("measurements", 2)
		r.Finish()
		return map[string]any{"wiring_check": true, "clients": len(cs)}
	}
	useNTS := tp.Bool(1, 3, "nts")
	scDrawFamily(r)
	var w *scionWorld
	var cl *client.SCIONClient
	var filter *recFilter
	var path snet.Path
	if useNTS {
		// NTS over SCION: real key exchange (over TLS on simulated TCP), real key provider
		nw := newNTSSCIONWorld(r, 2)
		w, cl, filter, path = nw.scionWorld, nw.cl, nw.filter, nw.path
		cl.InterleavedMode = tp.Bool(1, 2, "interleaved")
		r.Probe("scion-nts")
	} else {
		w = newSCIONWorld(r, time.Duration(tp.Range(0, int64(10*time.Second), "srvoff")), 1)
		w.startServers(2, false, 0, nil, false)
		filter = &recFilter{}
		cl = &client.SCIONClient{Log: quietLog(), InterleavedMode: tp.Bool(1, 2, "interleaved"), Filter: filter}
		var segs []int
		if tp.Bool(2, 3, "path") {
			segs = []int{2 + tp.Intn(5, "h")}
		}
		path = w.mkPath(0, segs, 1, scCliIA, scSrvIA)
	}
	laddr, raddr := w.udpAddrs()
	srvIP, cliIP := netip.MustParseAddr(scSrvIP), netip.MustParseAddr(scCliIP)
	nmeas := 4 + tp.Intn(20, "nmeas")
	attackRate := uint64(300 + tp.Intn(600, "attackrate"))

	reqOf := map[*simnet.UDPConn]*simnet.Datagram{}
	var curReq *simnet.Datagram
	w.net.OnSend = func(d *simnet.Datagram) {
		if d.SrcConn != nil && d.SrcConn.Host() == w.cli && reqOf[d.SrcConn] == nil {
			reqOf[d.SrcConn] = d
			curReq = d
		}
	}
	var history [][]byte
	attacks := map[uint64]string{}
	attacked := false
	calm := false // no attack in this exchange (see the driver)
	var kindsUsed []string
	w.net.Intercept = func(d *simnet.Datagram) ([]simnet.Route, bool) {
		// the router's copy of a server reply, on its way to the client
		if d.SrcConn == nil || d.SrcConn != w.routers[0] || d.Dst.Addr().Unmap() != cliIP || curReq == nil {
			return nil, false
		}
		p := parseSCION(d.Payload)
		if !p.ok || !p.isUDP || len(p.pld) < 48 {
			return nil, false
		}
		genuine := append([]byte(nil), d.Payload...)
		defer func() { history = append(history, genuine) }()
		if calm || !tp.Bool(attackRate, 1000, "attack?") {
			return nil, false
		}
		attacked = true
		var routes []simnet.Route
		n := 1 + tp.Intn(3, "nattack")
		for i := 0; i < n; i++ {
			var pl []byte
			kind := ""
			switch tp.Intn(20, "akind") {
			case 18:
				// an IPv6 host whose last four bytes are the queried IPv4 address, behind ffff in
				// bytes 10..11 - it only looks like an IPv4-mapped address (the first ten bytes
				// of a mapped one are zero)
				if !srvIP.Is4() && !srvIP.Is4In6() {
					continue
				}
				v4 := srvIP.Unmap().As4()
				look := netip.AddrFrom16([16]byte{0x20, 0x01, 0x0d, 0xb8, 0, 0, 0, 0, 0, 0, 0xff, 0xff, v4[0], v4[1], v4[2], v4[3]})
				kind = "source-host-ipv4-mapped-lookalike"
				pl = scRebuild(p, func(s *slayers.SCION, u *slayers.UDP, pld *[]byte) { s.SetSrcAddr(addr.HostIP(look)) })
			case 19:
				// behind the end of the UDP datagram, still inside the SCION payload: a forged
				// header that echoes the request (UDP-header-sized filler in front of it, padded to
				// the datagram's length). The datagram itself is the genuine one (NTS) or the
				// genuine one with another origin (plain).
				forged := append(make([]byte, 8), c05Forge(parseSCION(curReq.Payload).pld)...)
				kind = "forged-header-behind-the-udp-datagram"
				pl = scRebuild(p, func(s *slayers.SCION, u *slayers.UDP, pld *[]byte) {
					if !useNTS {
						(*pld)[24+tp.Intn(8, "ob")] ^= 1 << tp.Intn(8, "obit")
					}
					for len(forged) < 8+len(*pld) {
						forged = append(forged, 0)
					}
				})
				if pl != nil {
					pl = append(pl, forged...)
					binary.BigEndian.PutUint16(pl[6:], binary.BigEndian.Uint16(pl[6:])+uint16(len(forged)))
				}
			case 17:
				// what the server's response to another request of this session looks like (sealed
				// for that request's identifier), with the outstanding identifier appended behind
				// the authenticator, where nothing is authenticated
				if !useNTS {
					continue
				}
				s2c := cl.Auth.NTSKEFetcher.VerifData().S2cKey
				pt, ok := ntsOpenRaw(p.pld, s2c)
				if !ok {
					continue
				}
				other := append([]byte(nil), uidOf(p.pld)...)
				if tp.Bool(1, 3, "longer-uid") {
					// sealed for an identifier that merely begins with the outstanding one
					other = append(other, make([]byte, []int{4, 32}[tp.Intn(2, "uidextra")])...)
					rand.Read(other[len(other)-4:])
					kind = "nts-sealed-for-a-longer-identifier"
					resealed := ntsReseal(p.pld[:48], other, pt, s2c)
					pl = scRebuild(p, func(s *slayers.SCION, u *slayers.UDP, pld *[]byte) { *pld = resealed })
					r.Probe("scion-nts-resealed")
					break
				}
				other[tp.Intn(len(other), "uidb")] ^= 0x40
				resealed := ntsReseal(p.pld[:48], other, pt, s2c)
				resealed = append(resealed, 0x01, 0x04, 0, byte(4+len(other)))
				resealed = append(resealed, uidOf(p.pld)...)
				kind = "nts-sealed-for-other-identifier-outstanding-one-appended"
				pl = scRebuild(p, func(s *slayers.SCION, u *slayers.UDP, pld *[]byte) { *pld = resealed })
				r.Probe("scion-nts-resealed")
			case 16:
				if !useNTS {
					continue
				}
				s2c := cl.Auth.NTSKEFetcher.VerifData().S2cKey
				pt, ok := ntsOpenRaw(p.pld, s2c)
				if !ok {
					continue
				}
				hdr := append([]byte(nil), p.pld[:48]...)
				switch tp.Intn(3, "resealed") {
				case 0:
					kind = "nts-resealed-origin-changed"
					hdr[24+tp.Intn(8, "ob")] ^= 1 << tp.Intn(8, "obit")
				case 1:
					kind = "nts-resealed-stratum-0"
					hdr[1] = 0
				default:
					kind = "nts-resealed-li-3"
					hdr[0] |= 0xc0
				}
				resealed := ntsReseal(hdr, uidOf(p.pld), pt, s2c)
				pl = scRebuild(p, func(s *slayers.SCION, u *slayers.UDP, pld *[]byte) { *pld = resealed })
				r.Probe("scion-nts-resealed")
			case 14:
				if !useNTS {
					continue
				}
				kind = "nts-stripped"
				pl = scRebuild(p, func(s *slayers.SCION, u *slayers.UDP, pld *[]byte) { *pld = (*pld)[:48] })
			case 15:
				if !useNTS || len(p.pld) < 90 {
					continue
				}
				kind = "nts-uid-changed"
				pl = scRebuild(p, func(s *slayers.SCION, u *slayers.UDP, pld *[]byte) { (*pld)[52+tp.Intn(32, "uidb")] ^= 1 })
			case 0:
				kind = "random-bytes"
				pl = make([]byte, []int{0, 1, 47, 48, 60, 200, 1024}[tp.Intn(7, "rlen")])
				rand.Read(pl)
			case 1:
				kind = "source-isd-as-changed"
				pl = scRebuild(p, func(s *slayers.SCION, u *slayers.UDP, pld *[]byte) { s.SrcIA = scOthIA })
			case 2:
				kind = "source-isd-as-is-clients"
				pl = scRebuild(p, func(s *slayers.SCION, u *slayers.UDP, pld *[]byte) { s.SrcIA = scCliIA })
			case 3:
				kind = "source-host-changed"
				pl = scRebuild(p, func(s *slayers.SCION, u *slayers.UDP, pld *[]byte) {
					s.SetSrcAddr(addr.HostIP(netip.MustParseAddr(scAtkIP)))
				})
			case 4:
				kind = "destination-isd-as-changed"
				pl = scRebuild(p, func(s *slayers.SCION, u *slayers.UDP, pld *[]byte) { s.DstIA = scOthIA })
			case 5:
				kind = "destination-host-changed"
				pl = scRebuild(p, func(s *slayers.SCION, u *slayers.UDP, pld *[]byte) {
					s.SetDstAddr(addr.HostIP(netip.MustParseAddr(scAtkIP)))
				})
			case 6, 7, 8:
				f := tp.Intn(9, "field")
				pl = scRebuild(p, func(s *slayers.SCION, u *slayers.UDP, pld *[]byte) {
					b := *pld
					switch f {
					case 0:
						kind = "li=3"
						b[0] |= 0xc0
					case 1:
						v := []byte{0, 1, 2, 5, 6, 7, 3}[tp.Intn(7, "ver")]
						kind = fmt.Sprintf("version=%d", v)
						b[0] = b[0]&0xc7 | v<<3
					case 2:
						m := []byte{0, 1, 2, 3, 5, 6, 7}[tp.Intn(7, "mode")]
						kind = fmt.Sprintf("mode=%d", m)
						b[0] = b[0]&0xf8 | m
					case 3:
						st := []byte{0, 16, 17, 255, 15, 2}[tp.Intn(6, "stratum")]
						kind = fmt.Sprintf("stratum=%d", st)
						b[1] = st
					case 4:
						kind = "origin-changed"
						b[24+tp.Intn(8, "ob")] ^= 1 << tp.Intn(8, "obit")
					case 5:
						kind = "transmit-before-receive"
						copy(b[40:48], b[32:40])
						b[40] -= 1
					case 7:
						kind = "receive-decades-ahead-transmit-decades-back"
						c05SpreadServerTimes(b, tp)
					case 8:
						// transmit a little (microseconds to milliseconds) before the response's own
						// receive time - later than anything an earlier exchange recorded
						kind = "transmit-just-before-receive"
						rx, _ := decodeNTP(b)
						back := time.Duration(tp.Range(1000, int64(10*time.Millisecond), "txback"))
						t := ntp.Time64FromTime(ntp.TimeFromTime64(rx.ReceiveTime, time.Now()).Add(-back))
						binary.BigEndian.PutUint32(b[40:], t.Seconds)
						binary.BigEndian.PutUint32(b[44:], t.Fraction)
					default:
						kind = "transmit-changed"
						b[44+tp.Intn(4, "tb")] ^= 1 << tp.Intn(8, "tbit")
					}
				})
			case 9:
				if len(history) == 0 {
					continue
				}
				kind = "replay-earlier-response"
				pl = append([]byte(nil), history[tp.Intn(len(history), "hist")]...)
			case 10:
				kind = "request-reflected"
				pl = append([]byte(nil), curReq.Payload...)
			case 11:
				kind = "forged-from-other-as"
				pl = scRebuild(p, func(s *slayers.SCION, u *slayers.UDP, pld *[]byte) {
					s.SrcIA = scOthIA
					*pld = c05Forge(parseSCION(curReq.Payload).pld)
				})
			case 12:
				kind = "truncated"
				pl = append([]byte(nil), genuine[:len(genuine)-1-tp.Intn(47, "cut")]...)
			default:
				kind = "destination-and-source-swapped"
				pl = scRebuild(p, func(s *slayers.SCION, u *slayers.UDP, pld *[]byte) {
					s.SrcIA, s.DstIA = s.DstIA, s.SrcIA
					s.SetSrcAddr(addr.HostIP(cliIP))
					s.SetDstAddr(addr.HostIP(srvIP))
				})
			}
			if pl == nil {
				continue
			}
			a := w.net.NewDatagram(d.Src, d.Dst, pl, "attack:"+kind)
			attacks[a.ID] = kind
			kindsUsed = append(kindsUsed, kind)
			routes = append(routes, simnet.Route{D: a, Delay: time.Duration(20+30*i+tp.Intn(25, "adelay")) * time.Microsecond})
			r.Fault("crafted-datagram")
		}
		if tp.Bool(3, 4, "deliver-genuine") {
			routes = append(routes, simnet.Route{D: d, Delay: 150 * time.Microsecond})
		} else {
			r.Fault("genuine-withheld")
		}
		return routes, true
	}
	seenCalls := 0
	var prevAcceptedRx ntp.Time64
	ok, rejected, acceptedAttack, evaluated := 0, 0, 0, 0
	var samples []string
	w.net.OnClose = func(c *simnet.UDPConn) {
		if c.Host() != w.cli {
			return
		}
		q := reqOf[c]
		delete(reqOf, c)
		if len(filter.calls) == seenCalls {
			return
		}
		seenCalls = len(filter.calls)
		evaluated++
		last := c.LastRecv
		if last == nil || q == nil {
			r.Fail("C05", "scion/report-without-datagram", "an attempt reported an offset without having read a datagram")
			return
		}
		kind, isAttack := attacks[last.ID]
		if !isAttack {
			kind = "genuine"
		}
		lp, qp := parseSCION(last.Payload), parseSCION(q.Payload)
		if !lp.ok || !lp.isUDP || !qp.isUDP {
			r.Fail("C05", "scion/accepted/"+kind, "an offset was reported from a datagram that is not a SCION/UDP packet")
			return
		}
		why := ""
		sh, _ := netip.AddrFromSlice(lp.scn.RawSrcAddr)
		dh, _ := netip.AddrFromSlice(lp.scn.RawDstAddr)
		switch {
		case lp.scn.SrcIA != scSrvIA:
			why = fmt.Sprintf("source ISD-AS %v is not the queried one", lp.scn.SrcIA)
		case sh.Unmap() != srvIP:
			why = fmt.Sprintf("source host %v is not the queried one", sh)
		case lp.scn.DstIA != scCliIA:
			why = fmt.Sprintf("destination ISD-AS %v is not the client's", lp.scn.DstIA)
		case dh.Unmap() != cliIP:
			why = fmt.Sprintf("destination host %v is not the client's", dh)
		}
		if why == "" {
			req, _ := decodeNTP(qp.pld)
			var s2c, uid []byte
			if useNTS {
				s2c = cl.Auth.NTSKEFetcher.VerifData().S2cKey
				uid = uidOf(qp.pld)
			}
			_, why = c05Predicate(&simnet.Datagram{Src: netip.AddrPortFrom(srvIP, scSvcPort), Payload: lp.pld}, req, srvIP, useNTS, s2c, uid, time.Now())
		}
		if why != "" {
			r.Fail("C05", "scion/accepted/"+kind, "an offset was reported from a datagram that fails the predicate (%s): %s", kind, why)
			return
		}
		if isAttack {
			acceptedAttack++
			r.Probe("crafted-but-valid-accepted")
		}
		if resp, ok := decodeNTP(lp.pld); ok {
			req, _ := decodeNTP(qp.pld)
			if why := c05Provenance(req, resp, filter.calls[len(filter.calls)-1], prevAcceptedRx); why != "" {
				r.Fail("C05", "scion/provenance/t1", "%s", why)
				return
			}
			prevAcceptedRx = resp.ReceiveTime
			r.Probe("provenance-checked")
		}
	}
	log := slog.New(&tagHandler{})
	w.goSafe("driver", func() {
		defer r.Finish()
		for k := 0; k < nmeas && r.Violation() == nil; k++ {
			if r.Sleep(fmt.Sprintf("gap:%d", k), w.cli.Node, time.Duration(tp.Range(int64(20*time.Millisecond), int64(2*time.Second), "gap"))).Killed {
				return
			}
			attacked, curReq = false, nil
			calm = false
			if tp.Bool(1, 6, "server-forgets") {
				// the server lost its records (restart): the next interleaved request gets a basic
				// reply, judged like any other basic reply
				server.VerifResetTSS()
				r.Fault("server-restart")
			}
			ev0 := evaluated
			ctx, cancel := simsync.WithTimeout(context.Background(), 300*time.Millisecond)
			_, mOff, mErr := client.MeasureClockOffsetSCION(ctx, log, []*client.SCIONClient{cl}, laddr, raddr, []snet.Path{path})
			cancel()
			simcore.SetTag("driver")
			if evaluated == ev0 && mErr == nil {
				// no attempt of this measurement accepted a datagram, and yet the caller is handed an
				// offset (not an error): "every other datagram is skipped or yields an error, never
				// an offset"
				r.Fail("C05", "scion/offset-without-accepted-datagram", "measurement %d: no datagram was accepted (attacked: %v), yet MeasureClockOffsetSCION returned offset %v and no error", k, attacked, mOff)
				return
			}
			if evaluated == ev0 {
				rejected++
				r.Probe("measurement-failed")
				if !attacked && curReq != nil {
					r.Fail("C05", "scion/genuine-rejected", "measurement %d failed although nothing was injected or withheld", k)
					return
				}
				continue
			}
			ok++
			if attacked {
				r.Probe("succeeded-under-attack")
				r.Probe("scion-succeeded-under-attack")
			} else {
				r.Probe("clean-exchange")
			}
			if len(samples) < 5 && attacked {
				samples = append(samples, fmt.Sprintf("measurement %d ok under attack %v", k, kindsUsed[max(0, len(kindsUsed)-3):]))
			}
		}
	})
	reason := r.Loop(3_000_000, 0)
	r.SetVT()
	r.Drain()
	if reason != "" && r.Violation() == nil {
		r.Fail("harness", "c05s/"+reason, "scheduler stopped: %s pending=%v", reason, r.IdlePending)
	}
	r.Count("measurements", int64(ok+rejected))
	r.Count("attacks", int64(len(attacks)))
	return map[string]any{"transport": "scion", "nts": useNTS, "interleaved": cl.InterleavedMode, "measurements": nmeas, "ok": ok, "failed": rejected,
		"crafted_datagrams": len(attacks), "crafted_accepted_legitimately": acceptedAttack, "examples": samples}
}
