//go:build go1.25

package worlds

import (
	"bytes"
	"context"
	"crypto/tls"
	"crypto/x509"
	"fmt"
	"net/netip"
	"strings"
	"testing"
	"time"

	"github.com/scionproto/scion/pkg/snet"

	"example.com/scion-time/core/client"
	"example.com/scion-time/core/server"
	"example.com/scion-time/net/ntske"

	"verif.local/sim/simcore"
	"verif.local/sim/simnet"
	"verif.local/sim/simsync"
)

// W-ke: the real NTS-KE client (ntske.Fetcher inside the real IPClient, wired by
// the repository's configureIPClientNTS) against (a) the real handleKeyExchangeTLS
// and (b) a scripted TLS peer on the simulated TCP transport, over histories of
// 1..6 measurement attempts that mix failed and successful exchanges.

const (
	ipAltIP  = "10.0.0.3"
	keHost   = "ntske.sim"
	kePort   = 4460
	keALPN   = "ntske/1"
	keAEAD15 = 15
)

type keScript struct {
	real     bool     // served by the real handleKeyExchangeTLS
	alpn     []string // server's NextProtos (scripted)
	records  []keRecord
	chunks   bool  // write the message in several TLS records
	cutAt    int64 // >= 0: server->client direction breaks after that many bytes (TLS bytes)
	cutReset bool
	noEOM    bool
	desc     string
	// derived
	expectOK    bool // the statement allows success
	ambiguous   bool // statement silent (e.g. warning record): either outcome
	cookies     [][]byte
	server      string
	port        uint16
	unreachable bool // the server named is not an address and resolves to nothing
	// filled by the peer
	handshook bool
	c2s, s2c  []byte
	wrote     bool
}

func keGenScript(tp *simcore.Tape, k int) *keScript {
	s := &keScript{alpn: []string{keALPN}, cutAt: -1}
	if tp.Bool(1, 3, "real") {
		s.real = true
		s.expectOK = true
		s.desc = "real server"
		return s
	}
	switch tp.Pick([]uint64{10, 1, 1}, "alpn") {
	case 1:
		s.alpn = nil
		s.desc += "no-alpn "
	case 2:
		s.alpn = []string{"h2"}
		s.desc += "other-alpn "
	}
	ncookies := 1 + tp.Intn(8, "ncookies")
	if tp.Bool(1, 8, "long-message") {
		// far more records than this project's server sends: the message ends where its
		// end-of-message record is, not after some number of records
		ncookies = 25 + tp.Intn(40, "manycookies")
		s.desc += "long-message "
	}
	recs := []keRecord{{Type: 1, Critical: true, Body: u16(0), Note: "nextproto"}}
	aead := uint16(keAEAD15)
	haveAEAD := true
	switch tp.Pick([]uint64{10, 1, 1}, "aead") {
	case 1:
		haveAEAD = false
		s.desc += "no-aead "
	case 2:
		aead = []uint16{16, 17, 0, 0x0f0f}[tp.Intn(4, "aeadv")]
		s.desc += fmt.Sprintf("aead=%d ", aead)
	}
	if haveAEAD {
		recs = append(recs, keRecord{Type: 4, Critical: true, Body: u16(aead), Note: "aead"})
	}
	if tp.Bool(1, 2, "srvrec") {
		s.server = []string{c20SrvIP, c20AltIP, c20SrvIP, c20AltIP, "time.example.net"}[tp.Intn(5, "srvwhich")]
		recs = append(recs, keRecord{Type: 6, Body: []byte(s.server), Note: "server"})
		if s.server == "time.example.net" {
			// a host name (legal); this client does not resolve names, and nothing in the world
			// answers to this one: no request can go to the server named
			s.unreachable = true
			s.desc += "names-a-host "
		}
	}
	if tp.Bool(1, 2, "portrec") {
		s.port = []uint16{123, 4123, 65535}[tp.Intn(3, "portwhich")]
		recs = append(recs, keRecord{Type: 7, Body: u16(s.port), Note: "port"})
	}
	if tp.Bool(1, 10, "nocookies") {
		ncookies = 0
		s.desc += "no-cookies "
	}
	for i := 0; i < ncookies; i++ {
		n := []int{104, 100, 0, 1, 64}[tp.Pick([]uint64{8, 1, 1, 1, 1}, "cklen")]
		c := make([]byte, n)
		for j := range c {
			c[j] = byte(k*31 + i*7 + j)
		}
		if n >= 2 {
			c[0], c[1] = byte(k), byte(i) // unique per exchange and position
		}
		recs = append(recs, keRecord{Type: 5, Body: c, Note: "cookie"})
	}
	// insertions
	ins := func(rec keRecord) {
		pos := tp.Intn(len(recs)+1, "inspos")
		recs = append(recs[:pos], append([]keRecord{rec}, recs[pos:]...)...)
	}
	if tp.Bool(1, 6, "errrec") {
		code := []uint16{0, 1, 2, 3, 0x8000, 0xffff}[tp.Intn(6, "errcode")]
		// (also without the critical bit, and with a body that is not the two bytes of a code:
		// an error record is an error record)
		body := u16(code)
		switch tp.Intn(6, "errbody") {
		case 0:
			body = nil
		case 1:
			body = body[:1]
		case 2:
			body = append(body, 0, 0)
		}
		crit := !tp.Bool(1, 3, "errnoncrit")
		ins(keRecord{Type: 2, Critical: crit, Body: body, Note: fmt.Sprintf("error(%d,crit=%v,len=%d)", code, crit, len(body))})
	}
	if tp.Bool(1, 8, "warnrec") {
		ins(keRecord{Type: 3, Critical: tp.Bool(1, 2, "warncrit"), Body: u16(uint16(tp.Intn(3, "warncode"))), Note: "warning"})
	}
	if tp.Bool(1, 5, "unkrec") {
		body := make([]byte, tp.Intn(40, "unklen"))
		typ := uint16(100 + tp.Intn(1000, "unktype"))
		if tp.Bool(1, 3, "unkhigh") {
			// anywhere in the 15-bit type space, also where the low bits spell a known type
			typ = []uint16{0x4000, 0x1800, 0x0805, 0x2007, 0x7fff, 0x0800, 0x4005, 0x0806, 0x1004}[tp.Intn(9, "unkhightype")]
		}
		ins(keRecord{Type: typ, Critical: tp.Bool(1, 3, "unkcrit"), Body: body, Note: fmt.Sprintf("unknown(%#x)", typ)})
	}
	if tp.Bool(1, 8, "aead-again") {
		// a second algorithm record, or one that lists several algorithms: a response selects
		// exactly one, and the one that counts has to be AES-SIV-CMAC-256
		body := [][]byte{u16(17), u16(15), {0, 17, 0, 15}, {0, 15, 0, 30}, {}}[tp.Intn(5, "aead2")]
		ins(keRecord{Type: 4, Critical: true, Body: body, Note: fmt.Sprintf("aead%v", body)})
		s.desc += "aead-again "
	}
	if tp.Bool(1, 8, "shuffle") {
		for i := len(recs) - 1; i > 0; i-- {
			j := tp.Intn(i+1, "shuf")
			recs[i], recs[j] = recs[j], recs[i]
		}
		s.desc += "shuffled "
	}
	if tp.Bool(1, 10, "noeom") {
		s.noEOM = true
		s.desc += "no-eom "
	} else {
		recs = append(recs, keRecord{Type: 0, Critical: true, Note: "eom"})
		if tp.Bool(1, 6, "aftereom") {
			recs = append(recs, keRecord{Type: 2, Critical: true, Body: u16(1), Note: "error-after-eom"})
		}
	}
	s.records = recs
	s.chunks = tp.Bool(1, 2, "chunks")
	if tp.Bool(1, 6, "cut") {
		s.cutAt = tp.Range(0, 1500, "cutat")
		s.cutReset = tp.Bool(1, 2, "cutreset")
		s.desc += fmt.Sprintf("cut@%d ", s.cutAt)
	}
	// what the statement allows
	ok := len(s.alpn) == 1 && s.alpn[0] == keALPN
	sawEOM, sawAEAD15, malformed := false, false, false
	for _, rc := range recs {
		if rc.Type == 0 {
			sawEOM = true
			break
		}
		switch rc.Type {
		case 1:
		case 2:
			ok = false
		case 3:
			s.ambiguous = true
		case 4:
			sawAEAD15 = len(rc.Body) == 2 && rc.Body[0] == 0 && rc.Body[1] == keAEAD15
			if len(rc.Body) != 2 {
				// a response selects exactly one algorithm: a record that lists none or several does
				// not select AES-SIV-CMAC-256, whatever follows it
				ok = false
				malformed = true
			}
		case 5:
			s.cookies = append(s.cookies, rc.Body)
		case 6, 7:
		default:
			if rc.Critical {
				ok = false
			}
		}
		s.desc += rc.Note + " "
	}
	if !sawEOM || !sawAEAD15 || len(s.cookies) == 0 || malformed {
		ok = false
	}
	if s.cutAt >= 0 {
		// a broken connection can only turn success into failure; whether the message got
		// through depends on where the cut falls
		s.ambiguous = true
	}
	for _, c := range s.cookies {
		if len(c) < 8 {
			// a cookie this short cannot be packed into an NTP request; out of scope
			s.ambiguous = true
		}
	}
	s.expectOK = ok
	return s
}

type keConnRec struct {
	k      int
	script *keScript
	at     time.Time
}

// the server address and the other address a scripted exchange may name (per transport)
var c20SrvIP, c20AltIP = ipSrvIP, ipAltIP

func c20World(t *testing.T, r *simcore.Run) any {
	tp := r.Tape
	// every fourth run: the SCION client (NTS over SCION; the key exchange itself over TLS)
	overSCION := r.Index%4 == 3
	var (
		nw      *simnet.Net
		cliHost *simnet.Host
		cliNode *simcore.Node
		spawn   func(string, func())
		fetcher *ntske.Fetcher
		measure func(timeout time.Duration) error
		reqInfo func(d *simnet.Datagram) (netip.AddrPort, []byte, bool)
		// datagrams of the client that are a bare NTP header
		plainReqs int
		svcPort int
	)
	prov := ntske.NewProvider()
	srvOff := time.Duration(tp.Range(0, int64(time.Second), "srvoff"))
	if overSCION {
		scDrawFamily(r)
		sw := newSCIONWorld(r, srvOff, 1)
		c20SrvIP, c20AltIP, svcPort = scSrvIP, scOtherIP, scSvcPort
		sw.startServers(2, false, 0, prov, false)
		nw, cliHost, cliNode, spawn = sw.net, sw.cli, sw.cli.Node, sw.goSafe
		cl := &client.SCIONClient{Log: quietLog(), Filter: &recFilter{}}
		cl.Auth.NTSEnabled = true
		cl.Auth.NTSKEFetcher.TLSConfig = tls.Config{NextProtos: []string{keALPN}, ServerName: keHost, MinVersion: tls.VersionTLS13}
		cl.Auth.NTSKEFetcher.Port = fmt.Sprint(kePort)
		cl.Auth.NTSKEFetcher.Log = quietLog()
		fetcher = &cl.Auth.NTSKEFetcher
		var segs []int
		if tp.Bool(2, 3, "path") {
			segs = []int{2 + tp.Intn(5, "h")}
		}
		path := sw.mkPath(0, segs, 1, scCliIA, scSrvIA)
		// the configured server address: one object for all attempts, with a non-standard port
		laddr, raddr := sw.udpAddrs()
		raddr.Host.Port = 4999
		measure = func(timeout time.Duration) error {
			ctx, cancel := simsync.WithTimeout(context.Background(), timeout)
			defer cancel()
			tag := simcore.Tag()
			_, _, err := client.MeasureClockOffsetSCION(ctx, quietLog(), []*client.SCIONClient{cl}, laddr, raddr, []snet.Path{path})
			simcore.SetTag(tag)
			return err
		}
		reqInfo = func(d *simnet.Datagram) (netip.AddrPort, []byte, bool) {
			p := parseSCION(d.Payload)
			if p.ok && p.isUDP && len(p.pld) == 48 {
				plainReqs++
			}
			if !p.ok || !p.isUDP || len(p.pld) <= 48 {
				return netip.AddrPort{}, nil, false
			}
			ip, ok := netip.AddrFromSlice(p.scn.RawDstAddr)
			return netip.AddrPortFrom(ip.Unmap(), p.udp.DstPort), p.pld, ok
		}
		r.Probe("scion-client")
	} else {
		w := newIPWorld(r, srvOff, 0)
		c20SrvIP, c20AltIP, svcPort = ipSrvIP, ipAltIP, ipPort
		w.net.AddHost("alt", w.srv.Clock, ipAltIP)
		w.startListeners(2, prov)
		nw, cliHost, cliNode, spawn = w.net, w.cli, w.cli.Node, w.goSafe
		c := &client.IPClient{Log: quietLog()}
		configureIPClientNTS(c, fmt.Sprintf("%s:%d", keHost, kePort), quietLog())
		fetcher = &c.Auth.NTSKEFetcher
		// the configured server address: one object for all attempts, as the production reference
		// clock has it, with a non-standard port - where the requests go is up to the key exchange
		// (named server and port, by default the key-exchange host and the standard NTP port)
		remote := udpAddr(ipSrvIP, 4999)
		measure = func(timeout time.Duration) error {
			_, _, err := w.measureIPTo(c, remote, timeout)
			return err
		}
		reqInfo = func(d *simnet.Datagram) (netip.AddrPort, []byte, bool) {
			if len(d.Payload) == 48 {
				plainReqs++
			}
			return netip.AddrPortFrom(d.Dst.Addr().Unmap(), d.Dst.Port()), d.Payload, len(d.Payload) > 48
		}
	}
	nw.TLSClientHost = cliHost
	nw.Names = map[string]netip.Addr{keHost: netip.MustParseAddr(c20SrvIP)}
	cert, pool := mkCert([]string{keHost}, []string{c20SrvIP})
	lst, err := nw.ListenStream(hp(c20SrvIP, kePort), nil)
	if err != nil {
		panic(err)
	}
	nattempts := 1 + tp.Intn(6, "attempts")
	scripts := make([]*keScript, 0, nattempts+2)
	for k := 0; k < nattempts+2; k++ {
		sc := keGenScript(tp, k)
		scripts = append(scripts, sc)
		// what this peer does wrong (or unusually), for the evidence's fault account
		if !sc.real {
			if len(sc.alpn) != 1 || sc.alpn[0] != keALPN {
				r.Fault("peer:other-or-no-alpn")
			}
			if sc.noEOM {
				r.Fault("peer:no-end-of-message")
			}
			if strings.Contains(sc.desc, "shuffled") {
				r.Fault("peer:records-reordered")
			}
			for _, rec := range sc.records {
				switch {
				case strings.HasPrefix(rec.Note, "error"):
					r.Fault("peer:error-record")
					if !rec.Critical || len(rec.Body) != 2 {
						r.Probe("error-record-not-critical-or-of-odd-length")
					}
				case rec.Note == "warning":
					r.Fault("peer:warning-record")
				case rec.Note == "unknown" && rec.Critical:
					r.Fault("peer:unknown-critical-record")
				case rec.Note == "unknown":
					r.Fault("peer:unknown-record")
				}
			}
			if sc.chunks {
				r.Fault("peer:message-in-several-tls-records")
			}
		}
	}
	lst.PlanFor = func(k int) *simnet.StreamPlan {
		p := simnet.DefaultStreamPlan()
		p.Segment = tp.Bool(1, 2, "segment")
		if k < len(scripts) && scripts[k].cutAt >= 0 && !scripts[k].real {
			p.CutAfter[1] = scripts[k].cutAt
			p.CutReset = scripts[k].cutReset
		}
		return &p
	}
	var conns []*keConnRec
	// ---- the key-exchange server: real or scripted per connection
	spawn("ke-accept", func() {
		for k := 0; ; k++ {
			raw, err := lst.AcceptRaw()
			if err != nil {
				return
			}
			sc := scripts[len(scripts)-1]
			if k < len(scripts) {
				sc = scripts[k]
			}
			conns = append(conns, &keConnRec{k: k, script: sc, at: time.Now()})
			r.Log("ke conn %d real=%v", k, sc.real)
			kk := k
			spawn(fmt.Sprintf("ke%d", kk), func() {
				cfg := &tls.Config{Certificates: []tls.Certificate{cert}, MinVersion: tls.VersionTLS13, NextProtos: sc.alpn}
				tc := tls.Server(raw, cfg)
				if sc.real {
					server.VerifHandleKeyExchangeTLS(context.Background(), quietLog(), tc, svcPort, prov)
					return
				}
				if err := tc.Handshake(); err != nil {
					raw.Close()
					return
				}
				sc.handshook = true
				sc.c2s, sc.s2c, _ = keExport(tc.ConnectionState())
				// read the client's request up to its end-of-message record
				var req []byte
				buf := make([]byte, 256)
				for !bytes.Contains(req, []byte{0x80, 0x00, 0x00, 0x00}) && len(req) < 1024 {
					n, err := tc.Read(buf)
					req = append(req, buf[:n]...)
					if err != nil {
						return
					}
				}
				var msg []byte
				for _, rc := range sc.records {
					msg = append(msg, rc.bytes()...)
				}
				if sc.chunks {
					for len(msg) > 0 {
						n := 1 + tp.Intn(min(len(msg), 200), "chunk")
						if _, err := tc.Write(msg[:n]); err != nil {
							return
						}
						msg = msg[n:]
					}
				} else if _, err := tc.Write(msg); err != nil {
					return
				}
				sc.wrote = true
				tc.Close()
			})
		}
	})

	// ---- the client, wired as the service wires it
	fetcher.TLSConfig.RootCAs = pool
	_ = x509.NewCertPool

	// NTS requests seen on the wire
	type wireReq struct {
		dst     netip.AddrPort
		cookie  []byte
		nph     int
		at      time.Time
		payload []byte
	}
	var reqs []wireReq
	nw.OnSend = func(d *simnet.Datagram) {
		if d.SrcConn == nil || d.SrcConn.Host() != cliHost {
			return
		}
		if dst, payload, ok := reqInfo(d); ok {
			fields := ntsWalk(payload)
			wr := wireReq{dst: dst, at: time.Now(), payload: payload}
			for _, f := range fields {
				switch f.typ {
				case 0x0204:
					if wr.cookie == nil {
						wr.cookie = f.body
					}
				case 0x0304:
					wr.nph++
				}
			}
			reqs = append(reqs, wr)
		}
	}
	var hist []string
	okKE, failKE := 0, 0
	spawn("driver", func() {
		defer r.Finish()
		// issued cookies not yet used, as the statement defines the pool
		var pool [][]byte
		var cur *keScript
		for i := 0; i < nattempts && r.Violation() == nil; i++ {
			if r.Sleep(fmt.Sprintf("gap:%d", i), cliNode, time.Duration(tp.Range(int64(time.Millisecond), int64(2*time.Second), "gap"))).Killed {
				return
			}
			dials0, reqs0, plain0 := len(conns), len(reqs), plainReqs
			poolBefore := fetcher.VerifPoolLen()
			merr := measure(800 * time.Millisecond)
			dials, nreq := len(conns)-dials0, len(reqs)-reqs0
			data := fetcher.VerifData()
			line := fmt.Sprintf("attempt %d: pool %d, dials %d, NTS requests %d, err=%v", i, poolBefore, dials, nreq, merr != nil)
			if plainReqs != plain0 {
				// a client configured for NTS sends requests with NTS fields to the server an exchange
				// named, or none: a bare 48-byte request goes to a server no exchange has named
				r.Fail("C20", "request/without-nts", "%s: the client sent %d request(s) without NTS fields", line, plainReqs-plain0)
				return
			}
			if dials > 1 {
				r.Fail("C20", "exchange/repeated", "%s: more than one key exchange in one attempt", line)
				return
			}
			var sc *keScript
			if dials == 1 {
				sc = conns[len(conns)-1].script
				line += " [" + sc.desc + "]"
			}
			hist = append(hist, line)
			r.Log("%s", line)
			if cur != nil && !cur.real && len(pool) != poolBefore {
				r.Fail("C20", "pool/size", "%s: client pool holds %d cookies, %d issued ones are unused", line, poolBefore, len(pool))
				return
			}
			if poolBefore == 0 && dials == 0 {
				if nreq > 0 {
					r.Fail("C20", "failed-exchange/state-left", "%s: a request was sent without a new key exchange although the pool was empty", line)
					return
				}
				continue // the dial itself failed: nothing more to check
			}
			if dials == 1 && sc.unreachable {
				// whatever the client makes of the exchange, requests go to the server named or
				// nowhere - not to the configured address, nor to the one an earlier exchange named
				if nreq > 0 {
					r.Fail("C20", "destination/named", "%s: request went to %v, the exchange named the host %q", line, reqs[len(reqs)-1].dst, sc.server)
					return
				}
				r.Probe("named-host-not-an-address")
				fetcher.VerifForget() // the next attempt starts over (keeps the histories mixed)
				pool, cur = nil, nil
				continue
			}
			if dials == 1 {
				if poolBefore != 0 {
					r.Fail("C20", "exchange/premature", "%s: new key exchange although %d cookies were still unused", line, poolBefore)
					return
				}
				cur = sc
				succeeded := nreq > 0
				if succeeded {
					okKE++
					r.Probe("exchange-succeeded")
					if !sc.real && !sc.expectOK && !sc.ambiguous {
						r.Fail("C20", "exchange/accepted-bad-offer", "%s: the exchange succeeded although the statement forbids it", line)
						return
					}
					if sc.real {
						r.Probe("real-server-exchange")
					}
				} else {
					failKE++
					r.Probe("exchange-failed")
					if (sc.real || (sc.expectOK && !sc.ambiguous)) && sc.cutAt < 0 {
						r.Fail("C20", "exchange/refused-good-offer", "%s: a well-formed exchange failed (%v)", line, merr)
						return
					}
					if fetcher.VerifPoolLen() != 0 {
						r.Fail("C20", "failed-exchange/cookies-kept", "%s: after the failed exchange %d cookies stay in the client's pool", line, fetcher.VerifPoolLen())
						return
					}
					pool = nil
					continue
				}
				// success: keys, pool, destination
				if sc.real {
					// the cookies the real server issued open under its key to the client's keys
					if len(data.Cookie) > 0 || len(reqs) > 0 {
						ck := reqs[len(reqs)-1].cookie
						var ec ntske.EncryptedServerCookie
						if err := ec.Decode(ck); err != nil {
							r.Fail("C20", "real/cookie-decode", "%s: cookie sent by the client does not decode: %v", line, err)
							return
						}
						key, ok := prov.Get(int(ec.ID))
						if !ok {
							r.Fail("C20", "real/cookie-key", "%s: cookie names key %d which the provider does not know", line, ec.ID)
							return
						}
						plain, err := ec.Decrypt(key.Value)
						if err != nil || !bytes.Equal(plain.C2S, data.C2sKey) || !bytes.Equal(plain.S2C, data.S2cKey) || plain.Algo != keAEAD15 {
							r.Fail("C20", "real/keys-differ", "%s: cookie does not hold the client's keys (err %v)", line, err)
							return
						}
						r.Probe("real-keys-agree")
					}
					pool = nil // real cookies are replenished by the NTP server: tracked by C11
					if merr == nil {
						r.Probe("real-measurement-ok")
					}
					// the request went to the server and port the real server named
					if got := reqs[len(reqs)-1].dst; got != netip.AddrPortFrom(netip.MustParseAddr(c20SrvIP).Unmap(), uint16(svcPort)) {
						r.Fail("C20", "destination/real", "%s: request went to %v", line, got)
						return
					}
					// drop what is left so that the next attempt re-keys (keeps histories mixed)
					continue
				}
				if !bytes.Equal(data.C2sKey, sc.c2s) || !bytes.Equal(data.S2cKey, sc.s2c) {
					r.Fail("C20", "keys/differ", "%s: client keys differ from the exporter values of the peer's TLS session", line)
					return
				}
				r.Probe("keys-agree")
				pool = append([][]byte(nil), sc.cookies...)
			}
			// a request of this attempt uses the next issued cookie, asks for the missing ones,
			// and goes to the named server and port
			if nreq > 0 && cur != nil && !cur.real {
				wr := reqs[len(reqs)-1]
				if len(pool) == 0 {
					r.Fail("C20", "pool/empty-yet-used", "%s: request sent with an empty pool", line)
					return
				}
				want := pool[0]
				padded := append([]byte(nil), want...)
				for len(padded)%4 != 0 {
					padded = append(padded, 0)
				}
				if !bytes.Equal(wr.cookie, padded) {
					r.Fail("C20", "pool/order", "%s: request carries cookie %x..., next issued one is %x...", line, head(wr.cookie), head(want))
					return
				}
				if wantPH := 8 - len(pool); wr.nph != wantPH && wantPH >= 0 {
					// placeholder typing is C11's matter; count only when they are typed as such
					r.Probe("placeholder-count-differs")
				}
				pool = pool[1:]
				wantIP, wantPort := c20SrvIP, uint16(123)
				if cur.server != "" {
					wantIP = cur.server
				}
				if cur.port != 0 {
					wantPort = cur.port
				}
				if wr.dst != netip.AddrPortFrom(netip.MustParseAddr(wantIP).Unmap(), wantPort) {
					r.Fail("C20", "destination/named", "%s: request went to %v, the exchange named %s:%d", line, wr.dst, wantIP, wantPort)
					return
				}
				r.Probe("destination-checked")
				if cur.server != "" || cur.port != 0 {
					r.Probe("named-destination")
				}
				if got := fetcher.VerifPoolLen(); got != len(pool) {
					r.Fail("C20", "pool/size", "%s: client pool holds %d cookies, %d issued ones are unused", line, got, len(pool))
					return
				}
			} else if nreq == 0 && dials == 0 && len(pool) > 0 {
				r.Fail("C20", "pool/unused", "%s: no request although %d cookies are unused", line, len(pool))
				return
			}
		}
	})
	reason := r.Loop(2_000_000, 0)
	r.SetVT()
	r.Drain()
	if reason != "" && r.Violation() == nil {
		r.Fail("harness", "c20/"+reason, "scheduler stopped: %s pending=%v", reason, r.IdlePending)
	}
	r.Count("attempts", int64(len(hist)))
	r.Count("exchanges", int64(len(conns)))
	return map[string]any{"attempts": nattempts, "exchanges_ok": okKE, "exchanges_failed": failKE, "history": hist}
}

func head(b []byte) []byte {
	if len(b) > 6 {
		return b[:6]
	}
	return b
}

type ntsField struct {
	typ  uint16
	body []byte
	off  int
}

// ntsWalk is the harness's own minimal RFC 8915 extension-field walker.
func ntsWalk(p []byte) []ntsField {
	var out []ntsField
	pos := 48
	for pos+4 <= len(p) {
		typ := uint16(p[pos])<<8 | uint16(p[pos+1])
		l := int(p[pos+2])<<8 | int(p[pos+3])
		if l < 4 || pos+l > len(p) {
			break
		}
		out = append(out, ntsField{typ: typ, body: p[pos+4 : pos+l], off: pos})
		pos += l
	}
	return out
}

func init() {
	simcore.Registry["C20"] = &simcore.Spec{
		World:      c20World,
		NonTrivial: func(r *simcore.Run) bool { return r.Counts["exchanges"] >= 1 },
	}
}
