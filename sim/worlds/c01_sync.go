//go:build go1.25

package worlds

import (
	"context"
	"fmt"
	"math"
	"sort"
	gosync "sync"
	"testing"
	"time"

	"example.com/scion-time/core/client"
	"example.com/scion-time/core/sync"

	"example.com/scion-time/base/timebase"
	"example.com/scion-time/driver/clocks"

	"verif.local/sim/simclock"
	"verif.local/sim/simcore"
	"verif.local/sim/simkern"
)

// W-sync: the real sync.Run loop (with the real ReferenceClockClient,
// collectMeasurements and fault-tolerant midpoint underneath) on a simulated
// system clock, a recording discipline and 0..7 scripted reference clocks and
// 0..7 scripted peers that answer, fail, answer late, wait for cancellation or
// ignore it.

type c01Behaviour int

const (
	c01Answer c01Behaviour = iota
	c01Fail
	c01Late        // answers after the round's deadline (while a later round may already run)
	c01UntilCancel // returns (error) when the context is cancelled
	c01Ignore      // ignores cancellation, returns only when the world ends
)

type c01Plan struct {
	beh   c01Behaviour
	off   time.Duration
	delay time.Duration
}

type c01Source struct {
	r     *simcore.Run
	name  string
	plans []c01Plan // per call
	calls int
	w     *c01State
	group int // 0 = reference clocks, 1 = peers
}

type c01Arrival struct {
	group int
	off   time.Duration
	at    time.Time
	call  int
}

type c01State struct {
	mu       gosync.Mutex
	arrivals []c01Arrival // successful answers in release order
	called   [2]int       // MeasureClockOffset calls per group since world start
	ever     [2][]time.Duration
}

func (s *c01Source) MeasureClockOffset(ctx context.Context) (time.Time, time.Duration, error) {
	call := s.calls
	s.calls++
	s.w.mu.Lock() // the per-clock goroutines of one round start in the same step
	s.w.called[s.group]++
	s.w.mu.Unlock()
	p := c01Plan{beh: c01Fail}
	if call < len(s.plans) {
		p = s.plans[call]
	}
	if p.beh != c01Answer {
		s.r.Fault([]string{"", "source-fails", "source-answers-after-deadline", "source-blocks-until-cancelled", "source-ignores-cancellation"}[p.beh])
	}
	op := &simcore.Op{ID: fmt.Sprintf("src:%s:%d", s.name, call), NoDelay: true}
	switch p.beh {
	case c01UntilCancel:
		op.Ready = func() bool { return ctx.Err() != nil }
	case c01Ignore:
		// never ready: released only when the world ends
	default:
		op.Deadline = time.Now().Add(p.delay)
	}
	res := s.r.Park(op)
	if res.Killed || p.beh == c01Fail || p.beh == c01UntilCancel || p.beh == c01Ignore {
		return time.Time{}, 0, errScripted
	}
	now := time.Now()
	s.w.arrivals = append(s.w.arrivals, c01Arrival{group: s.group, off: p.off, at: now, call: call})
	s.w.ever[s.group] = append(s.w.ever[s.group], p.off)
	s.r.Log("src %s call %d answers %d", s.name, call, p.off)
	return now, p.off, nil
}

// c01RealClock is the repository's system clock driver with the world's per-round
// bookkeeping around Sleep.
type c01RealClock struct {
	timebase.SystemClock
	before func(d time.Duration)
	after  func()
}

func (c *c01RealClock) Sleep(d time.Duration) {
	c.before(d)
	c.SystemClock.Sleep(d)
	c.after()
}

type c01Do struct {
	corr time.Duration
	at   time.Time
}

type c01Recorder struct {
	dos []c01Do
	r   *simcore.Run
}

func (a *c01Recorder) Do(off time.Duration) {
	a.dos = append(a.dos, c01Do{off, time.Now()})
	a.r.Log("do %d", off)
}

func c01Offset(tp *simcore.Tape, cutoff time.Duration, caps [2]float64) time.Duration {
	bound := func(f float64) int64 {
		if f > 4e18 {
			return 4e18
		}
		return int64(f)
	}
	var v int64
	switch tp.Intn(16, "offkind") {
	case 0:
		v = 0
	case 1:
		v = 1
	case 14: // with the local clock's 0 the midpoint of a single peer is exactly the cutoff
		v = 2 * int64(cutoff)
	case 15:
		v = 2*int64(cutoff) + []int64{-2, -1, 1, 2}[tp.Intn(4, "d2")]
	case 2:
		v = int64(cutoff)
	case 3:
		v = int64(cutoff) + 1
	case 4:
		v = int64(cutoff) - 1
	case 5:
		v = bound(caps[0])
	case 6:
		v = bound(caps[0]) + 1 + tp.Range(0, 3, "d")
	case 7:
		v = bound(caps[1]) + 1 + tp.Range(0, 3, "d")
	case 8:
		v = bound(caps[1]) - tp.Range(0, 3, "d")
	case 9:
		v = math.MaxInt64
	case 10:
		v = math.MinInt64
		return time.Duration(v)
	case 11:
		v = 1 << 62
	case 12:
		v = tp.Range(0, int64(10*time.Millisecond), "small")
	default:
		v = tp.Range(0, math.MaxInt64-1, "any")
	}
	if tp.Bool(1, 2, "neg") {
		v = -v
	}
	return time.Duration(v)
}

// ftm is the fault-tolerant midpoint written from its definition, in exact
// arithmetic (float128 is not needed: results are compared with a tolerance).
func c01FTM(vals []time.Duration) (lo, hi time.Duration) {
	s := append([]time.Duration(nil), vals...)
	sort.Slice(s, func(i, j int) bool { return s[i] < s[j] })
	f := (len(s) - 1) / 3
	return s[f], s[len(s)-1-f]
}

// c01Classification: the clauses about the reference-clock and the peer contribution
// presuppose that a configured peer reaches the loop as a peer. The wiring decides that.
func c01Classification(r *simcore.Run) {
	if Root.ClassifySources == nil {
		return
	}
	tp := r.Tape
	var refs, peers []string
	for i := 0; i < tp.Intn(4, "nref-ip"); i++ {
		refs = append(refs, fmt.Sprintf("0-0,10.1.%d.1:123", i))
	}
	nIP := len(refs)
	for i := 0; i < tp.Intn(3, "nref-scion"); i++ {
		refs = append(refs, fmt.Sprintf("1-ff00:0:11%d,10.2.%d.1:10123", i, i))
	}
	for i := 0; i < tp.Intn(4, "npeer"); i++ {
		peers = append(peers, fmt.Sprintf("1-ff00:0:12%d,10.3.%d.1:10123", i, i))
	}
	_ = nIP
	nref, npeer := Root.ClassifySources(refs, peers, "1-ff00:0:110,10.0.0.2:0")
	if nref != len(refs) || npeer != len(peers) {
		r.Fail("C01", "wiring/source-classification", "%d reference clocks and %d peers configured, the loop gets %d reference clocks and %d peers", len(refs), len(peers), nref, npeer)
		return
	}
	r.Probe("sources-classified-by-the-wiring")
}

func c01World(t *testing.T, r *simcore.Run) any {
	if r.Index%8 == 6 {
		c01Classification(r)
		if r.Violation() != nil {
			return nil
		}
	}
	if r.Index%8 == 7 && Root.DefaultSyncConfig != nil && Root.NewNTPReferenceClockIP != nil {
		return c01WiredWorld(r) // the real wiring of timeservice.go against real listeners
	}
	activate(r)
	resetProm()
	tp := r.Tape
	// ---- configuration
	intervals := []time.Duration{time.Millisecond, 10 * time.Millisecond, time.Second, 16 * time.Second, time.Minute, time.Hour}
	interval := intervals[tp.Intn(len(intervals), "interval")]
	drift := []float64{1e-3, 1e-4, 2e-5, 1e-6, 5e-7, 1e-8}[tp.Intn(6, "drift")]
	if float64(interval)*drift < 2 {
		drift = 1e-3
	}
	cfg := sync.Config{SyncInterval: interval}
	cfg.ReferenceClockImpact = []float64{1.25, 1.0000001, 2, 5, 10}[tp.Intn(5, "refimp")]
	cfg.PeerClockImpact = cfg.ReferenceClockImpact + 1 + []float64{1.25, 0.0000001, 0.25, 3, 20}[tp.Intn(5, "peerimp")]
	cfg.PeerClockCutoff = []time.Duration{50 * time.Microsecond, 0, 1, time.Millisecond, time.Second}[tp.Intn(5, "cutoff")]
	switch tp.Intn(5, "timeout") {
	case 0:
		cfg.SyncTimeout = interval / 2
	case 1:
		cfg.SyncTimeout = 0
	case 2:
		cfg.SyncTimeout = interval / 4
	case 3:
		cfg.SyncTimeout = 1
	default:
		cfg.SyncTimeout = time.Duration(tp.Range(0, int64(interval/2), "to"))
	}
	admissible := true
	badKind := ""
	if tp.Bool(1, 8, "inadmissible") {
		admissible = false
		switch tp.Intn(9, "badkind") {
		case 8:
			cfg.ReferenceClockImpact, badKind = -1.25, "ref factor < 0"
		case 0:
			cfg.ReferenceClockImpact, badKind = 1.0, "ref factor = 1"
		case 1:
			cfg.ReferenceClockImpact, badKind = 0.5, "ref factor < 1"
		case 2:
			cfg.ReferenceClockImpact = 1.25 // ref + 1 must be exact in float64
			cfg.PeerClockImpact, badKind = cfg.ReferenceClockImpact+1, "peer factor = ref factor + 1"
		case 3:
			cfg.ReferenceClockImpact = 2
			cfg.PeerClockImpact, badKind = cfg.ReferenceClockImpact+0.5, "peer factor < ref factor + 1"
		case 4:
			cfg.SyncInterval, badKind = 0, "interval = 0"
		case 5:
			cfg.SyncInterval, badKind = -time.Second, "interval < 0"
		case 6:
			cfg.SyncTimeout, badKind = interval/2+1, "timeout = interval/2 + 1ns"
		default:
			cfg.SyncTimeout, badKind = interval, "timeout = interval"
		}
	}
	// In a third of the runs the settings take the way they take in production: as the numbers
	// of the configuration file through timeservice.go's syncConfig (where an absent or zero
	// setting means "default"; such settings are not sent this way here).
	if Root.SyncConfigFrom != nil && tp.Bool(1, 3, "viawiring") && cfg.ReferenceClockImpact != 0 && cfg.PeerClockImpact != 0 && cfg.PeerClockCutoff != 0 &&
		cfg.SyncTimeout != 0 && cfg.SyncInterval != 0 {
		in := cfg
		cfg = Root.SyncConfigFrom(in.ReferenceClockImpact, in.PeerClockImpact, in.PeerClockCutoff.Seconds(), in.SyncTimeout.Seconds(), in.SyncInterval.Seconds())
		if cfg.SyncInterval > 0 {
			interval = cfg.SyncInterval
		}
		rulesOK := cfg.ReferenceClockImpact > 1 && cfg.PeerClockImpact-cfg.ReferenceClockImpact > 1 && cfg.SyncInterval > 0 && cfg.SyncTimeout <= cfg.SyncInterval/2
		negative := in.ReferenceClockImpact < 0 || in.PeerClockImpact < 0 || in.SyncInterval < 0
		admissible = rulesOK && !negative
		if !admissible && badKind == "" {
			badKind = "settings after their conversion from the configuration file's seconds"
		}
		r.Probe("config-via-wiring")
	}
	nref := tp.Intn(8, "nref")
	npeer := tp.Intn(8, "npeer")
	rounds := 3 + tp.Intn(12, "rounds")
	if tp.Bool(1, 10, "long") {
		rounds = 15 + tp.Intn(36, "rounds2")
	}

	// The drift allowance for one interval is what the (simulated) system clock says it
	// is; the caps are the statement's "impact factor x drift x interval".
	driftNs := float64(simclock.New(0, 0, drift).Drift(interval))
	realDriver := tp.Bool(1, 4, "realdriver")
	if realDriver {
		driftNs = float64(interval) * drift // the statement's "configured drift x sync interval"
	}
	caps := [2]float64{cfg.ReferenceClockImpact * driftNs, cfg.PeerClockImpact * driftNs}

	w := &c01State{}
	mk := func(group, n int, prefix string) ([]client.ReferenceClock, []*c01Source) {
		var cs []client.ReferenceClock
		var ss []*c01Source
		for i := 0; i < n; i++ {
			s := &c01Source{r: r, name: fmt.Sprintf("%s%d", prefix, i), w: w, group: group}
			mode := tp.Intn(4, "srcmode") // 0 reliable, 1 flaky, 2 mostly failing, 3 byzantine values
			for k := 0; k < rounds+2; k++ {
				p := c01Plan{}
				switch mode {
				case 0:
					p.beh = c01Answer
				case 1:
					p.beh = c01Behaviour(tp.Pick([]uint64{6, 2, 2, 1, 0}, "beh"))
				case 2:
					p.beh = c01Behaviour(tp.Pick([]uint64{2, 4, 2, 2, 0}, "beh"))
				default:
					p.beh = c01Behaviour(tp.Pick([]uint64{8, 1, 1, 1, 0}, "beh"))
				}
				if tp.Bool(1, 60, "ignore") {
					p.beh = c01Ignore
				}
				p.off = c01Offset(tp, cfg.PeerClockCutoff, caps)
				to := cfg.SyncTimeout
				switch p.beh {
				case c01Answer, c01Fail:
					if to > 0 {
						p.delay = time.Duration(tp.Range(0, int64(to)-1, "delay"))
					} else {
						p.delay = 0 // at the deadline: may or may not make it
					}
					if tp.Bool(1, 12, "atdl") {
						p.delay = to
					}
				case c01Late:
					p.delay = to + 1 + time.Duration(tp.Range(0, int64(interval), "late"))
				}
				s.plans = append(s.plans, p)
			}
			cs = append(cs, s)
			ss = append(ss, s)
		}
		return cs, ss
	}
	refClks, refSrc := mk(0, nref, "ref")
	peerClks, peerSrc := mk(1, npeer, "peer")
	_, _ = refSrc, peerSrc

	clk := simclock.New(0, 0, drift)
	node := &simcore.Node{Name: "node", Clock: clk}
	r.TimerNode = node
	simclock.Global.Set(func() *simclock.Clock { return clk })

	rec := &c01Recorder{r: r}
	type roundInfo struct {
		start time.Time
	}
	var roundStarts []time.Time
	sleeps := 0
	started := time.Now()
	roundStarts = append(roundStarts, started)
	var panicked any
	finished := false
	// per-round bookkeeping evaluated at every Sleep call (i.e. once per round)
	lastDo := 0
	lastArr := 0
	var lastCalled [2]int
	stats := struct{ both, clamped, cutoff, partial, exact int }{}

	check := func(k int, roundStart time.Time) {
		// (a) exactly one correction per round
		ndo := len(rec.dos) - lastDo
		if ndo != 1 {
			r.Fail("C01", "round/corrections", "round %d handed %d corrections to the discipline (want exactly 1)", k, ndo)
			return
		}
		d := rec.dos[len(rec.dos)-1]
		lastDo = len(rec.dos)
		// C16 through the loop: the correction comes no later than start + timeout
		if d.at.Sub(roundStart) > cfg.SyncTimeout {
			r.Fail("C01", "round/late", "round %d: correction at %v after round start, timeout %v", k, d.at.Sub(roundStart), cfg.SyncTimeout)
			return
		}
		// arrivals of this round, per group, that made it before the correction
		var in [2][]time.Duration
		var asked [2]int
		for g := 0; g < 2; g++ {
			asked[g] = w.called[g] - lastCalled[g]
			lastCalled[g] = w.called[g]
		}
		deadline := roundStart.Add(cfg.SyncTimeout)
		atDeadline := false
		for _, a := range w.arrivals[lastArr:] {
			// only answers to this round's calls count (late ones belong to earlier rounds)
			if a.call != k {
				continue
			}
			if a.at.Before(deadline) {
				in[a.group] = append(in[a.group], a.off)
			} else if a.at.Equal(deadline) {
				atDeadline = true
			}
		}
		lastArr = len(w.arrivals)
		refOK := nref > 0
		peerConfigured := npeer > 0
		corr := float64(d.corr)
		// the correction is a whole number of nanoseconds and the cap a product of a factor and a
		// whole number of nanoseconds: a single contribution may not exceed its cap at all (a
		// clamp that rounds up instead of down is over it); the midpoint of two may round by one
		tol := func(cap float64) float64 { return cap * 1e-12 }
		abs := math.Abs(corr)
		if d.corr == math.MinInt64 {
			abs = math.MaxFloat64
		}
		// (b) bounds
		switch {
		case !refOK && !peerConfigured:
			if d.corr != 0 {
				r.Fail("C01", "bound/no-sources", "round %d: correction %d with no source configured", k, d.corr)
			}
			return
		case refOK && !peerConfigured:
			if abs > caps[0]+tol(caps[0]) {
				r.Fail("C01", "bound/ref", "round %d: |correction| %v exceeds reference cap %.3f ns", k, d.corr, caps[0])
				return
			}
		case !refOK && peerConfigured:
			if abs > caps[1]+tol(caps[1]) {
				r.Fail("C01", "bound/peer", "round %d: |correction| %v exceeds peer cap %.3f ns", k, d.corr, caps[1])
				return
			}
		default:
			if abs > (caps[0]+caps[1])/2+1+tol(caps[1]) {
				r.Fail("C01", "bound/both", "round %d: |correction| %v exceeds midpoint of caps %.3f / %.3f ns", k, d.corr, caps[0], caps[1])
				return
			}
		}
		// (c) exact value when every source of every configured group answered in time
		allRef := !refOK || (len(in[0]) == nref && asked[0] == nref)
		allPeer := !peerConfigured || (len(in[1]) == npeer && asked[1] == npeer)
		if !allRef || !allPeer || atDeadline {
			stats.partial++
			r.Probe("partial-round")
			// hull: each group's contribution lies between the extremes of everything it
			// has ever reported (stale slots are allowed) and zero (initial slots, local clock)
			return
		}
		clampF := func(f float64, cap float64) (float64, bool) {
			if math.Abs(f) > cap {
				if f < 0 {
					return -cap, true
				}
				return cap, true
			}
			return f, false
		}
		mid := func(lo, hi time.Duration) float64 { return float64(lo) + (float64(hi)-float64(lo))/2 }
		var refC, peerC float64
		var cl bool
		if refOK {
			lo, hi := c01FTM(in[0])
			refC, cl = clampF(mid(lo, hi), caps[0])
			if cl {
				stats.clamped++
				r.Probe("clamped-ref")
			}
			// the midpoint of two int64 values can differ from the float by rounding for
			// huge values; skip exactness beyond 2^62 as the statement does
			if lo <= -(1<<62) || hi >= 1<<62 {
				return
			}
		}
		peerContrib := false
		if peerConfigured {
			vals := append([]time.Duration{0}, in[1]...)
			lo, hi := c01FTM(vals)
			if lo <= -(1<<62) || hi >= 1<<62 {
				return
			}
			po := mid(lo, hi) // exact midpoint; the code's integer midpoint is within 1 ns of it
			if d := math.Abs(math.Abs(po) - float64(cfg.PeerClockCutoff)); d <= 1 && (int64(lo)+int64(hi))%2 != 0 {
				return // a half-nanosecond midpoint next to the cutoff: either rounding is fine
			}
			if math.Abs(po) == float64(cfg.PeerClockCutoff) {
				r.Probe("peer-offset-exactly-at-cutoff") // "within the cutoff": contributes nothing
			}
			if math.Abs(po) > float64(cfg.PeerClockCutoff) {
				peerContrib = true
				peerC, cl = clampF(po, caps[1])
				if cl {
					r.Probe("clamped-peer")
				}
			} else {
				stats.cutoff++
				r.Probe("cutoff-suppressed")
			}
		}
		var want float64
		switch {
		case refOK && peerContrib:
			want = refC + (peerC-refC)/2
			stats.both++
			r.Probe("both-groups")
		case refOK:
			want = refC
		case peerContrib:
			want = peerC
		default:
			want = 0
		}
		exactTol := 3.0
		if realDriver {
			// the driver's Drift() truncates to whole nanoseconds, and the caps are that times the
			// impact factors: the clamped value may fall short of the statement's product by that much
			exactTol += cfg.PeerClockImpact
		}
		if math.Abs(corr-want) > exactTol+math.Abs(want)*1e-12 {
			r.Fail("C01", "value/all-answered", "round %d: correction %d ns, statement gives %.3f ns (ref %v peers %v cutoff %v caps %.3f/%.3f)",
				k, d.corr, want, in[0], in[1], cfg.PeerClockCutoff, caps[0], caps[1])
			return
		}
		stats.exact++
		r.Probe("exact-round")
	}

	beforeSleep := func(d time.Duration) int {
		k := sleeps
		sleeps++
		if d != cfg.SyncInterval {
			r.Fail("C01", "sleep/interval", "loop slept %v, configured interval %v", d, cfg.SyncInterval)
		}
		check(k, roundStarts[k])
		if sleeps >= rounds || r.Violation() != nil {
			finished = true
			r.Finish()
		}
		return k
	}
	clk.SleepFn = func(d time.Duration) {
		k := beforeSleep(d)
		r.ParkOrExit(&simcore.Op{ID: fmt.Sprintf("sleep:%d", k), Node: node, Deadline: time.Now().Add(d), NoDelay: true})
		roundStarts = append(roundStarts, time.Now())
	}
	// In a quarter of the runs the loop runs on the repository's real system clock driver
	// (driver/clocks: Drift, Sleep through an absolute timerfd, Epoch) over a simulated kernel
	// clock with an oscillator error of up to 50 ppm.
	var lclk timebase.SystemClock = clk
	if realDriver {
		kern := simkern.New(r, node, clk, tp.Range(0, 100000, "hwppb")-50000)
		simkern.Current = kern
		defer func() { simkern.Current = nil }()
		lclk = &c01RealClock{SystemClock: clocks.NewSystemClock(quietLog(), time.Duration(math.Round(drift*1e9))),
			before: func(d time.Duration) { beforeSleep(d) },
			after:  func() { roundStarts = append(roundStarts, time.Now()) }}
		r.Probe("real-clock-driver")
	}
	go func() {
		defer func() {
			panicked = recover()
			if !finished {
				r.Finish()
			}
		}()
		if r.Sleep("start", node, 0).Killed {
			return
		}
		sync.Run(quietLog(), cfg, lclk, rec, refClks, peerClks)
	}()
	reason := r.Loop(5_000_000, 0)
	r.SetVT()
	r.Drain()
	if reason != "" && r.Violation() == nil {
		r.Fail("harness", "c01/"+reason, "scheduler stopped: %s pending=%v", reason, r.PendingIDs())
	}
	if r.Violation() == nil {
		if admissible && panicked != nil {
			r.Fail("C01", "startup/admissible-refused", "admissible configuration %+v refused: %v", cfg, panicked)
		}
		if !admissible {
			if panicked == nil {
				r.Fail("C01", "startup/inadmissible-accepted", "configuration with %s was accepted: %+v", badKind, cfg)
			} else if len(rec.dos) != 0 || w.called[0]+w.called[1] != 0 {
				r.Fail("C01", "startup/late-refusal", "configuration with %s refused only after measuring", badKind)
			} else {
				r.Probe("inadmissible-refused")
			}
		}
	}
	r.Count("rounds", int64(sleeps))
	return map[string]any{"config": fmt.Sprintf("%+v", cfg), "drift": drift, "admissible": admissible, "bad": badKind,
		"ref_clocks": nref, "peers": npeer, "rounds": sleeps, "exact_rounds": stats.exact, "partial_rounds": stats.partial,
		"both_groups_rounds": stats.both, "cutoff_rounds": stats.cutoff,
		"corrections": func() []int64 {
			var o []int64
			for i, d := range rec.dos {
				if i >= 8 {
					break
				}
				o = append(o, int64(d.corr))
			}
			return o
		}()}
}

func init() {
	simcore.Registry["C01"] = &simcore.Spec{
		World:      c01World,
		NonTrivial: func(r *simcore.Run) bool { return r.Counts["rounds"] >= 3 || r.Probes["inadmissible-refused"] > 0 },
	}
}
