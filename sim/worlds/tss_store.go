//go:build go1.25

package worlds

import (
	"fmt"
	"os"
	"sort"
	"testing"
	"time"

	"example.com/scion-time/core/server"
	"example.com/scion-time/net/ntp"

	"verif.local/sim/simclock"
	"verif.local/sim/simcore"
	"verif.local/sim/simsync"
)

// W-tss (direct calls): 1..8 simulated callers drive the real handleRequest and
// updateTXTimestamp through the export shim, with statement-level yields and the
// simulator-aware mutex in most runs, at store capacities 2..16 (the eviction
// logic is the same code as at 2^20). Requests are generated against what is on
// record. Every reply and every state change is judged by a relation written from
// the statements of C06 and C07, evaluated on snapshots taken when the mutex was
// acquired and released (or at call and return when it never was).

type tssSnap struct {
	heap  []server.VerifTSSItem
	byKey map[string]*server.VerifTSSItem
	mapN  int
}

func tssTake() *tssSnap {
	h, n := server.VerifSnapshotTSS()
	s := &tssSnap{heap: h, mapN: n, byKey: map[string]*server.VerifTSSItem{}}
	for i := range h {
		s.byKey[h[i].Key] = &h[i]
	}
	return s
}

func t64s(t ntp.Time64) string { return fmt.Sprintf("%d.%010d", t.Seconds, t.Fraction) }

type tssOpCtx struct {
	acq, rel *tssSnap
}

type tssWorldState struct {
	r      *simcore.Run
	prop   string // "C06" or "C07": which statement's oracles may fail the run
	capN   int
	cur    map[string]*tssOpCtx // by caller tag
	order  map[string]bool      // client -> requests so far arrived in timestamp order
	lastRx map[string]time.Time
	serial bool
	// exchanges whose updateTXTimestamp has not run yet (client/rx -> true)
	pendingSW map[string]bool
}

func (w *tssWorldState) fail(prop, site, format string, a ...any) {
	if prop == w.prop {
		w.r.Fail(prop, site, format, a...)
	} else {
		w.r.Probe("other-property:" + prop + "/" + site)
	}
}

// invariants checks the store-wide statements of C07 on a snapshot.
func (w *tssWorldState) invariants(s *tssSnap, where string) bool {
	if len(s.heap) != s.mapN {
		w.fail("C07", "store/map-heap-size", "%s: heap holds %d items, map %d", where, len(s.heap), s.mapN)
		return false
	}
	if len(s.heap) > w.capN {
		w.fail("C07", "store/over-capacity", "%s: %d clients kept, capacity %d", where, len(s.heap), w.capN)
		return false
	}
	for i, it := range s.heap {
		if !it.InMap {
			w.fail("C07", "store/heap-item-not-in-map", "%s: heap[%d] (%s) is not the item the map holds for its key", where, i, it.Key)
			return false
		}
		if it.Qidx != i {
			w.fail("C07", "store/back-pointer", "%s: heap[%d] (%s) has back-pointer %d", where, i, it.Key, it.Qidx)
			return false
		}
		if i > 0 {
			p := s.heap[(i-1)/2]
			if it.Qval.Before(p.Qval) {
				w.fail("C07", "store/heap-order", "%s: heap[%d] (%s, %s) ranks before its parent (%s, %s)", where, i, it.Key, t64s(it.Qval), p.Key, t64s(p.Qval))
				return false
			}
		}
		if len(it.Entries) < 1 || len(it.Entries) > 8 {
			w.fail("C07", "store/entries-per-client", "%s: client %s has %d exchanges on record", where, it.Key, len(it.Entries))
			return false
		}
		var newest ntp.Time64
		for a, e := range it.Entries {
			for b := a + 1; b < len(it.Entries); b++ {
				if it.Entries[b].Rxt == e.Rxt {
					w.fail("C06", "store/duplicate-rx", "%s: client %s holds two exchanges with receive timestamp %s", where, it.Key, t64s(e.Rxt))
					return false
				}
			}
			if a == 0 || e.Rxt.After(newest) {
				newest = e.Rxt
			}
		}
		if it.Qval.Before(newest) {
			w.fail("C07", "store/ranked-older-than-newest", "%s: client %s is ranked at %s, older than its most recent stored exchange %s", where, it.Key, t64s(it.Qval), t64s(newest))
			return false
		}
		if w.serial && w.order[it.Key] && it.Qval != newest {
			w.fail("C07", "store/rank-not-newest-in-order", "%s: client %s (requests in timestamp order) is ranked at %s, its most recent stored exchange is %s", where, it.Key, t64s(it.Qval), t64s(newest))
			return false
		}
	}
	return true
}

// tssCapacityRun drives the store at the code's own capacity with more distinct clients than
// it may keep (an address-spoofing flood) and asserts the statement's 2^20. Thorough tier,
// first run of the batch only (about 1.2 million requests, a few seconds, ~300 MB).
func tssCapacityRun(r *simcore.Run, prop string) any {
	const want = 1 << 20
	activate(r)
	server.VerifResetTSS()
	server.VerifTSSMuReset()
	if server.VerifTSSCap() != want && prop == "C07" {
		r.Fail("C07", "capacity/constant", "the store's capacity is %d, the statement says 2^20", server.VerifTSSCap())
		return nil
	}
	clk := simclock.New(0, 0, 0)
	simclock.Global.Set(func() *simclock.Clock { return clk })
	w := &tssWorldState{r: r, prop: prop, capN: want, cur: map[string]*tssOpCtx{}, order: map[string]bool{}, lastRx: map[string]time.Time{}, serial: true, pendingSW: map[string]bool{}}
	base := time.Date(2024, 5, 1, 12, 0, 0, 0, time.UTC)
	one := func(i int, rxt time.Time) {
		client := fmt.Sprintf("10.%d.%d.%d", i>>16, (i>>8)&255, i&255)
		var req, resp ntp.Packet
		req.SetVersion(4)
		req.SetMode(ntp.ModeClient)
		req.TransmitTime = ntp.Time64FromTime(rxt)
		rd := rxt.Add(time.Microsecond)
		clk.Fixed = &rd
		rx, tx := rxt, time.Time{}
		server.VerifHandleRequest(client, &req, &rx, &tx, &resp)
		k := tx.Add(time.Microsecond)
		server.VerifUpdateTXTimestamp(client, rx, &k)
	}
	for i := 0; i < want; i++ {
		one(i, base.Add(time.Duration(i)*time.Microsecond))
	}
	_, n := server.VerifSnapshotTSSLen()
	if n != want && prop == "C07" {
		r.Fail("C07", "capacity/fill", "after %d distinct clients the store keeps %d", want, n)
		return nil
	}
	// newer requests evict, older ones are served statelessly; the size never exceeds 2^20
	for i := want; i < want+50000 && r.Violation() == nil; i++ {
		rxt := base.Add(time.Duration(i) * time.Microsecond)
		if i%5 == 0 {
			rxt = base.Add(-time.Second) // older than everything on record
		}
		one(i, rxt)
		if _, n := server.VerifSnapshotTSSLen(); n > want && prop == "C07" {
			r.Fail("C07", "capacity/exceeded", "the store keeps %d clients (> 2^20)", n)
			return nil
		}
	}
	snap := tssTake()
	if prop == "C07" {
		if len(snap.heap) != want {
			r.Fail("C07", "capacity/size", "after the flood the store keeps %d clients, want exactly 2^20", len(snap.heap))
			return nil
		}
		w.invariants(snap, "after a flood of 2^20+50000 clients")
		// the oldest 40000 newer-than-root newcomers replaced the 40000 oldest clients
		if _, ok := snap.byKey["10.0.0.0"]; ok {
			r.Fail("C07", "capacity/eviction-order", "the least recently active client survived a flood of newer requests")
		}
	}
	r.Probe("capacity-run")
	r.Count("requests", want+50000)
	server.VerifResetTSS()
	return map[string]any{"capacity_run": true, "clients": want + 50000, "kept": len(snap.heap)}
}

func tssWorld(prop string) simcore.World {
	return func(t *testing.T, r *simcore.Run) any {
		if os.Getenv("SIM_TIER") == "thorough" && r.Index == 0 && os.Getenv("SIM_REPLAY") == "" {
			return tssCapacityRun(r, prop)
		}
		if prop == "C06" && r.Index%8 == 7 {
			// which client id a listener derives from a packet is listener code: a run with real
			// listeners and scripted clients of distinct identities (worlds/c06_identity.go)
			return c06IdentityWorld(r)
		}
		activate(r)
		server.VerifResetTSS()
		if server.VerifTSSMuHeld() {
			// residue of the previous run's teardown (possible only when the tree under test
			// unlocks without defer): start from a fresh mutex
			server.VerifTSSMuReset()
			r.Probe("mutex-reset-at-start")
		}
		tp := r.Tape
		ncallers := 1 + tp.Intn(8, "ncallers")
		if tp.Bool(1, 3, "single") {
			ncallers = 1
		}
		nops := 6 + tp.Intn(40, "nops")
		r.YieldsOn = ncallers > 1 && tp.Bool(4, 5, "yields")
		r.YieldNum, r.YieldDen = uint64(1+tp.Intn(4, "ynum")), 4
		capN := 2 + tp.Intn(15, "cap")
		server.VerifSetTSSCap(capN)
		nclients := 1 + tp.Intn(5, "nclients")
		flood := tp.Bool(1, 3, "flood") // many one-shot clients: fills the store, forces evictions
		w := &tssWorldState{r: r, prop: prop, capN: capN, cur: map[string]*tssOpCtx{}, order: map[string]bool{}, lastRx: map[string]time.Time{},
			serial: ncallers == 1, pendingSW: map[string]bool{}}
		clocks := map[string]*simclock.Clock{}
		simclock.Global.Set(func() *simclock.Clock {
			if c := clocks[simcore.Tag()]; c != nil {
				return c
			}
			panic("tss world: clock read by an untagged goroutine")
		})
		simsync.OnAcquire = func(tag string) {
			if c := w.cur[tag]; c != nil && c.acq == nil {
				c.acq = tssTake()
			}
		}
		simsync.OnRelease = func(tag string) {
			if c := w.cur[tag]; c != nil {
				c.rel = tssTake()
			}
		}
		defer func() { simsync.OnAcquire, simsync.OnRelease = nil, nil }()

		base := time.Date(2024, 5, 1, 12, 0, 0, 0, time.UTC)
		tick := 0
		nextTime := func() time.Time { tick++; return base.Add(time.Duration(tick) * 10 * time.Millisecond) }
		fresh := 0
		served, ilServed, evictions, stateless, removed := 0, 0, 0, 0, 0
		var samples []string
		done := 0
		for c := 0; c < ncallers; c++ {
			tag := fmt.Sprintf("c%d", c)
			clk := simclock.New(0, 0, 0)
			clocks[tag] = clk
			go func() {
				simcore.SetTag(tag)
				defer func() {
					if p := recover(); p != nil {
						st := string(debugStack())
						r.Fail("panic", simcore.SiteFromStack(st)+":"+simcore.PanicClass(p), "caller %s: %v\n%s", tag, p, st)
					}
					done++
					if done == ncallers {
						r.Finish()
					}
				}()
				if r.Sleep("start:"+tag, nil, 0).Killed {
					return
				}
				for k := 0; k < nops && !r.Over(); k++ {
					// ---- craft a request against what is on record
					client := fmt.Sprintf("10.1.0.%d", tp.Intn(nclients, "client"))
					if flood && tp.Bool(2, 3, "fresh") {
						fresh++
						client = fmt.Sprintf("10.9.%d.%d", fresh/250, fresh%250)
					}
					now := nextTime()
					rxtIn := now
					var onRec []server.VerifTSSEntry
					onRec = server.VerifClientEntries(client)
					switch tp.Intn(8, "rxkind") {
					case 0: // collides with a receive timestamp on record
						if len(onRec) > 0 {
							e := onRec[tp.Intn(len(onRec), "rxcol")]
							cand := ntp.TimeFromTime64(e.Rxt, now)
							// Time64 -> time truncates; find the nanosecond that maps back to the same Time64
							for j := 0; j < 3; j++ {
								if ntp.Time64FromTime(cand.Add(time.Duration(j))) == e.Rxt {
									rxtIn = cand.Add(time.Duration(j))
									r.Fault("rx-stamp-collides-with-record")
									break
								}
							}
						}
					case 1: // older than everything (out of order / late packet)
						rxtIn = base.Add(-time.Duration(tp.Range(0, 1000, "old")) * time.Millisecond)
						r.Fault("rx-stamp-out-of-order")
					case 2: // equal to this client's previous receive time
						if t0, ok := w.lastRx[client]; ok {
							rxtIn = t0
							r.Fault("rx-stamp-repeated")
						}
					}
					reading := rxtIn.Add(time.Duration(tp.Range(0, 50000, "proc")))
					switch tp.Intn(7, "readkind") {
					case 6: // a nanosecond or a few after the packet's receive time (where a bumped receive timestamp lands)
						reading = rxtIn.Add(time.Duration(1 + tp.Intn(4, "ns-after")))
						r.Probe("clock-reading-nanoseconds-after-rx-stamp")
					case 0:
						reading = rxtIn // clock reading equal to the receive time
						r.Fault("clock-reading-not-after-rx-stamp")
					case 1:
						reading = rxtIn.Add(-time.Duration(tp.Range(1, 2000, "back"))) // before it
						r.Fault("clock-reading-not-after-rx-stamp")
					case 2:
						if tp.Bool(1, 2, "far") {
							reading = now.Add(time.Second) // handled late
							r.Fault("slow-listener")
						}
					}
					var req ntp.Packet
					req.SetVersion(4)
					req.SetMode(ntp.ModeClient)
					req.TransmitTime = ntp.Time64FromTime(now.Add(-time.Millisecond))
					ilWanted := false
					switch tp.Intn(6, "reqkind") {
					case 0, 1, 2: // interleaved request naming an exchange on record
						if len(onRec) > 0 {
							e := onRec[tp.Intn(len(onRec), "origin")]
							req.OriginTime = e.Rxt
							req.ReceiveTime = ntp.Time64FromTime(now.Add(-3 * time.Millisecond))
							ilWanted = true
						}
					case 3: // origin that was never issued
						req.OriginTime = ntp.Time64FromTime(base.Add(-time.Hour))
						req.ReceiveTime = ntp.Time64FromTime(now.Add(-3 * time.Millisecond))
					case 4: // origin on record for another client
						for _, other := range []string{"10.1.0.0", "10.1.0.1", "10.1.0.2"} {
							if other != client {
								if es := server.VerifClientEntries(other); len(es) > 0 {
									req.OriginTime = es[0].Rxt
									req.ReceiveTime = ntp.Time64FromTime(now.Add(-3 * time.Millisecond))
									break
								}
							}
						}
					}
					if ilWanted && tp.Bool(1, 8, "rxeqtx") {
						req.ReceiveTime = req.TransmitTime // receive and transmit fields equal: must be answered basic
					}
					// ---- handleRequest
					ctx := &tssOpCtx{}
					w.cur[tag] = ctx
					rd := reading
					clk.Fixed = &rd
					inv := tssTake()
					rxt, txt := rxtIn, time.Time{}
					var resp ntp.Packet
					server.VerifHandleRequest(client, &req, &rxt, &txt, &resp)
					ret := tssTake()
					w.cur[tag] = nil
					before, after := ctx.acq, ctx.rel
					if before == nil {
						before = inv
					}
					if after == nil {
						after = ret
					}
					mode, ok := w.checkRequest(tag, client, &req, rxtIn, reading, rxt, txt, &resp, before, after)
					if !ok {
						return
					}
					served++
					switch mode {
					case "interleaved":
						ilServed++
						r.Probe("interleaved-served")
					case "stateless":
						stateless++
						r.Probe("stateless")
					case "evicted":
						evictions++
						r.Probe("evicted")
					}
					if len(samples) < 8 {
						samples = append(samples, fmt.Sprintf("%s %s rx+%v reading%+v -> %s", tag, client, rxtIn.Sub(base), reading.Sub(rxtIn), mode))
					}
					pkey := client + "/" + t64s(ntp.Time64FromTime(rxt))
					w.pendingSW[pkey] = true
					r.Log("req %s %s -> %s", tag, client, mode)
					if r.Sleep(fmt.Sprintf("between:%s:%d", tag, k), nil, 0).Killed {
						return
					}
					// ---- updateTXTimestamp: kernel timestamp present (later, equal to or before rx), or missing
					kernel := true
					txt1 := txt.Add(time.Duration(tp.Range(1, 30000, "ktx")))
					switch tp.Intn(6, "txkind") {
					case 0, 1:
						kernel = false
						txt1 = txt // the listener falls back to the software timestamp
						r.Fault("tx-stamp-missing")
					case 2:
						txt1 = rxt // kernel timestamp equal to the receive time
						r.Fault("tx-stamp-not-after-rx-stamp")
					case 3:
						txt1 = rxt.Add(-time.Duration(tp.Range(1, 1000, "kback"))) // earlier than the receive time
						r.Fault("tx-stamp-not-after-rx-stamp")
					}
					ctx = &tssOpCtx{}
					w.cur[tag] = ctx
					inv = tssTake()
					txtArg := txt1
					server.VerifUpdateTXTimestamp(client, rxt, &txtArg)
					ret = tssTake()
					w.cur[tag] = nil
					before, after = ctx.acq, ctx.rel
					if before == nil {
						before = inv
					}
					if after == nil {
						after = ret
					}
					delete(w.pendingSW, pkey)
					rm, ok := w.checkUpdate(tag, client, rxt, txt, txt1, kernel, before, after)
					if !ok {
						return
					}
					if rm {
						removed++
						r.Probe("dropped-without-kernel-stamp")
					} else if kernel {
						r.Probe("kernel-stamp-recorded")
					}
					r.Log("upd %s %s kernel=%v removed=%v", tag, client, kernel, rm)
				}
			}()
		}
		reason := r.Loop(3_000_000, 0)
		r.SetVT()
		r.Drain()
		if server.VerifTSSMuHeld() && r.Violation() == nil {
			r.Fail("harness", "tss/mutex-locked-at-end", "the store mutex is still locked after the run was torn down")
		}
		if reason != "" && r.Violation() == nil {
			r.Fail("harness", "tss/"+reason, "scheduler stopped: %s pending=%v", reason, r.IdlePending)
		}
		r.Count("requests", int64(served))
		r.Count("callers", int64(ncallers))
		return map[string]any{"callers": ncallers, "ops_per_caller": nops, "yields": r.YieldsOn, "capacity": capN, "clients": nclients, "flood": flood,
			"requests": served, "interleaved": ilServed, "evictions": evictions, "stateless": stateless, "dropped": removed, "examples": samples}
	}
}

func entriesOf(it *server.VerifTSSItem) []server.VerifTSSEntry {
	if it == nil {
		return nil
	}
	return it.Entries
}

func hasEntry(es []server.VerifTSSEntry, e server.VerifTSSEntry) bool {
	for _, x := range es {
		if x == e {
			return true
		}
	}
	return false
}

// checkRequest is the relation for one handleRequest call.
func (w *tssWorldState) checkRequest(tag, client string, req *ntp.Packet, rxtIn, reading, rxtOut, txtOut time.Time,
	resp *ntp.Packet, before, after *tssSnap) (string, bool) {
	E := entriesOf(before.byKey[client])
	rx64 := ntp.Time64FromTime(rxtOut)
	tx64 := ntp.Time64FromTime(txtOut)
	// ---- C06: the reply
	if resp.ReceiveTime != rx64 {
		w.fail("C06", "reply/receive-field", "reply carries receive timestamp %s, the request was stamped %s", t64s(resp.ReceiveTime), t64s(rx64))
		return "", w.prop != "C06"
	}
	if rxtOut.Before(rxtIn) || rxtOut.Sub(rxtIn) > time.Duration(len(E)) {
		w.fail("C06", "reply/receive-moved", "receive time moved by %v (client has %d exchanges on record)", rxtOut.Sub(rxtIn), len(E))
		return "", w.prop != "C06"
	}
	for _, e := range E {
		if e.Rxt == rx64 {
			w.fail("C06", "reply/receive-not-unique", "reply's receive timestamp %s equals one on record for client %s", t64s(rx64), client)
			return "", w.prop != "C06"
		}
	}
	mode := "basic"
	if req.ReceiveTime != req.TransmitTime && resp.OriginTime == req.ReceiveTime {
		mode = "interleaved"
		var hit *server.VerifTSSEntry
		for i := range E {
			if E[i].Rxt == req.OriginTime {
				hit = &E[i]
			}
		}
		if hit == nil {
			w.fail("C06", "interleaved/no-record", "interleaved reply although no exchange with receive timestamp %s is on record for client %s (on record: %d)",
				t64s(req.OriginTime), client, len(E))
			return "", w.prop != "C06"
		}
		if resp.TransmitTime != hit.Txt {
			w.fail("C06", "interleaved/wrong-transmit", "interleaved reply carries transmit %s, on record for that exchange: %s", t64s(resp.TransmitTime), t64s(hit.Txt))
			return "", w.prop != "C06"
		}
		if !hit.Txt.After(hit.Rxt) {
			if w.pendingSW[client+"/"+t64s(hit.Rxt)] {
				// Known finding F09: the exchange still carries the software transmit time taken in
				// handleRequest, which was not later than the receive time, and is served before its
				// updateTXTimestamp ran.
				if w.prop == "C06" {
					w.r.Known("C06", "interleaved/transmit-not-after-receive+software-stamp-served-before-update",
						"served exchange of %s has transmit %s not later than its receive %s (software timestamp, update pending)", client, t64s(hit.Txt), t64s(hit.Rxt))
				}
			} else {
				w.fail("C06", "interleaved/transmit-not-after-receive", "served exchange has transmit %s not later than its receive %s", t64s(hit.Txt), t64s(hit.Rxt))
				return "", w.prop != "C06"
			}
		}
	} else {
		if resp.OriginTime != req.TransmitTime {
			w.fail("C06", "basic/origin", "basic reply's origin %s is not the request's transmit timestamp %s", t64s(resp.OriginTime), t64s(req.TransmitTime))
			return "", w.prop != "C06"
		}
		if resp.TransmitTime != tx64 {
			w.fail("C06", "basic/transmit-field", "basic reply's transmit %s is not the reported transmit time %s", t64s(resp.TransmitTime), t64s(tx64))
			return "", w.prop != "C06"
		}
		if reading.After(rxtIn) && !resp.TransmitTime.After(resp.ReceiveTime) {
			w.fail("C06", "basic/transmit-not-after-receive", "clock reading %v after the receive time but transmit %s not later than receive %s",
				reading.Sub(rxtIn), t64s(resp.TransmitTime), t64s(resp.ReceiveTime))
			return "", w.prop != "C06"
		}
	}
	if resp.Version() != 4 || resp.Mode() != ntp.ModeServer || resp.Stratum != 1 {
		w.fail("C06", "reply/header", "reply is not version 4 / server mode / stratum 1")
		return "", w.prop != "C06"
	}
	// ---- state change
	newE := server.VerifTSSEntry{Rxt: rx64, Txt: tx64}
	ib, ia := before.byKey[client], after.byKey[client]
	var gone []string
	for k := range before.byKey {
		if _, ok := after.byKey[k]; !ok {
			gone = append(gone, k)
		}
	}
	sort.Strings(gone)
	if ib != nil {
		if ia == nil {
			w.fail("C06", "state/client-lost", "client %s lost its record while being served", client)
			return "", w.prop != "C06"
		}
		if !hasEntry(ia.Entries, newE) {
			w.fail("C06", "state/exchange-not-recorded", "the exchange (%s,%s) was not put on record for %s", t64s(rx64), t64s(tx64), client)
			return "", w.prop != "C06"
		}
		lost := 0
		for _, e := range E {
			if !hasEntry(ia.Entries, e) {
				lost++
			}
		}
		for _, e := range ia.Entries {
			if e != newE && !hasEntry(E, e) {
				w.fail("C06", "state/fabricated-entry", "an exchange (%s,%s) appeared on record for %s that was never made", t64s(e.Rxt), t64s(e.Txt), client)
				return "", w.prop != "C06"
			}
		}
		if lost > 1 {
			w.fail("C06", "state/too-many-replaced", "%d recorded exchanges of %s were dropped by one request", lost, client)
			return "", w.prop != "C06"
		}
		if len(gone) != 0 {
			w.fail("C07", "evict/known-client", "a request of a known client evicted %v", gone)
			return "", w.prop != "C07"
		}
	} else {
		full := len(before.heap) >= w.capN
		switch {
		case !full:
			if ia == nil || len(ia.Entries) != 1 || ia.Entries[0] != newE {
				w.fail("C06", "state/new-client-not-recorded", "first exchange of %s not on record although the store has room (%d/%d)", client, len(before.heap), w.capN)
				return "", w.prop != "C06"
			}
			if len(gone) != 0 {
				w.fail("C07", "evict/not-full", "clients %v evicted although the store was not full", gone)
				return "", w.prop != "C07"
			}
		default:
			root := before.heap[0]
			mayEvict := !root.Qval.After(rx64)
			if mayEvict {
				if len(gone) != 1 || gone[0] != root.Key || ia == nil {
					w.fail("C07", "evict/wrong-victim", "store full, request at %s is at least as recent as the least recently active client %s (%s): expected exactly that client to go, gone=%v, newcomer recorded=%v",
						t64s(rx64), root.Key, t64s(root.Qval), gone, ia != nil)
					return "", w.prop != "C07"
				}
				mode = "evicted"
			} else {
				if len(gone) != 0 || ia != nil {
					w.fail("C07", "evict/for-older-request", "store full and the request at %s is older than the least recently active client %s (%s): must be served statelessly, gone=%v recorded=%v",
						t64s(rx64), root.Key, t64s(root.Qval), gone, ia != nil)
					return "", w.prop != "C07"
				}
				mode = "stateless"
			}
		}
	}
	// every other client's record is untouched
	for k, b := range before.byKey {
		if k == client {
			continue
		}
		a := after.byKey[k]
		if a == nil {
			continue
		}
		if len(a.Entries) != len(b.Entries) {
			w.fail("C06", "state/other-client-touched", "record of %s changed while serving %s", k, client)
			return "", w.prop != "C06"
		}
		for _, e := range b.Entries {
			if !hasEntry(a.Entries, e) {
				w.fail("C06", "state/other-client-touched", "record of %s changed while serving %s", k, client)
				return "", w.prop != "C06"
			}
		}
	}
	// order bookkeeping for the in-order clause
	if last, ok := w.lastRx[client]; ok {
		if !rxtOut.After(last) {
			w.order[client] = false
		}
	} else {
		w.order[client] = true
	}
	if mode != "stateless" {
		w.lastRx[client] = rxtOut
	}
	if mode == "stateless" {
		w.order[client] = false
	}
	if !w.invariants(after, "after request of "+client) {
		return "", false
	}
	return mode, true
}

// checkUpdate is the relation for one updateTXTimestamp call.
func (w *tssWorldState) checkUpdate(tag, client string, rxt, swTxt, reported time.Time, kernel bool, before, after *tssSnap) (bool, bool) {
	E := entriesOf(before.byKey[client])
	A := entriesOf(after.byKey[client])
	rx64 := ntp.Time64FromTime(rxt)
	var x *server.VerifTSSEntry
	for i := range E {
		if E[i].Rxt == rx64 {
			x = &E[i]
		}
	}
	removed := false
	if x == nil {
		// nothing on record for that exchange: nothing may change
		if len(A) != len(E) {
			w.fail("C06", "update/unknown-exchange-changed-state", "update for an exchange not on record changed %s's record", client)
			return false, w.prop != "C06"
		}
	} else if x.Txt != ntp.Time64FromTime(swTxt) {
		// The exchange on record under this receive timestamp is not the one this update
		// belongs to: that one has left the record and a later request of the same client
		// was stamped with the same receive time (known finding F08).
		if len(A) != len(E) || !hasEntry(A, *x) {
			w.fail("C06", "update/aliased-exchange+receive-timestamp-reused", "update for the exchange (%s, tx %s) of %s was applied to another exchange on record under the same receive timestamp (tx %s)",
				t64s(rx64), t64s(ntp.Time64FromTime(swTxt)), client, t64s(x.Txt))
			return false, w.prop != "C06"
		}
	} else {
		adj := reported
		if !rxt.Before(reported) {
			adj = rxt.Add(1)
		}
		want := server.VerifTSSEntry{Rxt: rx64, Txt: ntp.Time64FromTime(adj)}
		still := false
		for _, e := range A {
			if e.Rxt == rx64 {
				still = true
				if kernel && e != want && ntp.Time64FromTime(reported) != x.Txt {
					w.fail("C06", "update/kernel-stamp-not-recorded", "kernel transmit time read, on record is %s, expected %s", t64s(e.Txt), t64s(want.Txt))
					return false, w.prop != "C06"
				}
				if !e.Txt.After(e.Rxt) {
					w.fail("C06", "update/transmit-not-after-receive", "recorded transmit %s not later than receive %s", t64s(e.Txt), t64s(e.Rxt))
					return false, w.prop != "C06"
				}
			}
		}
		if !kernel && still {
			w.fail("C06", "update/kept-without-kernel-stamp", "no kernel transmit timestamp could be read for the exchange at %s of %s, yet it stays on record (and can be served interleaved); on record before: tx %s, software tx passed back: %s, after: %v",
				t64s(rx64), client, t64s(x.Txt), t64s(ntp.Time64FromTime(reported)), A)
			return false, w.prop != "C06"
		}
		if kernel && !still && ntp.Time64FromTime(reported) != x.Txt {
			w.fail("C06", "update/dropped-with-kernel-stamp", "exchange at %s dropped although its kernel transmit timestamp was read", t64s(rx64))
			return false, w.prop != "C06"
		}
		removed = !still
		for _, e := range E {
			if e.Rxt != rx64 && !hasEntry(A, e) {
				w.fail("C06", "update/other-exchange-lost", "update of the exchange at %s dropped another exchange of %s", t64s(rx64), client)
				return false, w.prop != "C06"
			}
		}
	}
	for k, b := range before.byKey {
		if k == client {
			continue
		}
		a := after.byKey[k]
		if a == nil || len(a.Entries) != len(b.Entries) {
			w.fail("C06", "update/other-client-touched", "record of %s changed by an update for %s", k, client)
			return false, w.prop != "C06"
		}
	}
	if !w.invariants(after, "after update of "+client) {
		return false, false
	}
	return removed, true
}

func init() {
	for _, p := range []string{"C06", "C07"} {
		simcore.Registry[p] = &simcore.Spec{
			World:        tssWorld(p),
			NonTrivial:   func(r *simcore.Run) bool { return r.Counts["requests"] >= 4 },
			ResetGlobals: func() { server.VerifResetTSS() },
		}
	}
}
