//go:build go1.25

package worlds

import (
	"bytes"
	"context"
	"crypto/tls"
	"fmt"
	"net"
	"net/netip"
	"time"

	"github.com/miscreant/miscreant.go"

	"example.com/scion-time/core/client"
	"example.com/scion-time/core/server"
	"example.com/scion-time/net/ntske"

	"verif.local/sim/simcore"
	"verif.local/sim/simnet"
)

// ntsWorld: real IPClient with NTS (wired by configureIPClientNTS), real NTS-KE
// server (handleKeyExchangeTLS behind a real TLS 1.3 handshake on simulated TCP),
// real runIPServer listeners with the real key Provider.
type ntsWorld struct {
	*ipWorld
	prov  *ntske.Provider
	cl    *client.IPClient
	lst   *simnet.StreamListener
	keOK  int // key exchanges served
	nextK int
}

func newNTSWorld(r *simcore.Run, nlisten int) *ntsWorld {
	w := &ntsWorld{ipWorld: newIPWorld(r, time.Duration(r.Tape.Range(0, int64(time.Second), "srvoff")), 0)}
	w.net.TLSClientHost = w.cli
	w.net.Names = map[string]netip.Addr{keHost: netip.MustParseAddr(ipSrvIP)}
	cert, pool := mkCert([]string{keHost}, []string{ipSrvIP})
	w.prov = ntske.NewProvider()
	w.startListeners(nlisten, w.prov)
	w.startKE(cert)
	w.cl = &client.IPClient{Log: quietLog()}
	configureIPClientNTS(w.cl, fmt.Sprintf("%s:%d", keHost, kePort), quietLog())
	w.cl.Auth.NTSKEFetcher.TLSConfig.RootCAs = pool
	return w
}

// countingListener counts accepted connections (= key exchanges attempted).
type countingListener struct {
	net.Listener
	n *int
}

func (l countingListener) Accept() (net.Conn, error) {
	c, err := l.Listener.Accept()
	if err == nil {
		*l.n++
	}
	return c, err
}

// startKE runs the repository's own NTS-KE accept loop (runNTSKEServerTLS, which spawns
// handleKeyExchangeTLS per connection) on a simulated TLS listener.
func (w *ntsWorld) startKE(cert tls.Certificate) {
	cfg := &tls.Config{Certificates: []tls.Certificate{cert}, MinVersion: tls.VersionTLS13, NextProtos: []string{keALPN}}
	lst, err := w.net.ListenStream(hp(ipSrvIP, kePort), cfg)
	if err != nil {
		panic(err)
	}
	w.lst = lst
	w.goSafe("ke-accept", func() {
		server.VerifRunNTSKEServerTLS(context.Background(), quietLog(), countingListener{lst, &w.nextK}, ipPort, w.prov)
	})
}

// openCookie opens a cookie the way only the server can: under the provider's key.
func (w *ntsWorld) openCookie(ck []byte) (ntske.ServerCookie, int, error) {
	var ec ntske.EncryptedServerCookie
	if err := ec.Decode(ck); err != nil {
		return ntske.ServerCookie{}, 0, err
	}
	key, ok := w.prov.Get(int(ec.ID))
	if !ok {
		return ntske.ServerCookie{}, int(ec.ID), fmt.Errorf("key %d not valid", ec.ID)
	}
	sc, err := ec.Decrypt(key.Value)
	return sc, int(ec.ID), err
}

// ntsVerify recomputes the AEAD check of an NTS packet independently of the
// repository's decoder: associated data = everything before the authenticator
// field; returns the decrypted extension fields.
func ntsVerify(p []byte, key []byte) ([]ntsField, bool) {
	for _, f := range ntsWalk(p) {
		if f.typ == 0x0404 {
			if len(f.body) < 4 {
				return nil, false
			}
			nl := int(f.body[0])<<8 | int(f.body[1])
			cl := int(f.body[2])<<8 | int(f.body[3])
			npad := (nl + 3) &^ 3
			if 4+npad+cl > len(f.body) || nl != 16 {
				return nil, false
			}
			nonce := f.body[4 : 4+nl]
			ct := f.body[4+npad : 4+npad+cl]
			aead, err := miscreant.NewAEAD("AES-CMAC-SIV", key, 16)
			if err != nil {
				return nil, false
			}
			pt, err := aead.Open(nil, nonce, ct, p[:f.off])
			if err != nil {
				return nil, false
			}
			// inner fields
			fake := append(make([]byte, 48), pt...)
			return ntsWalk(fake), true
		}
	}
	return nil, false
}

// ntsOpenRaw returns the decrypted plaintext of an NTS packet's authenticator field.
func ntsOpenRaw(p []byte, key []byte) ([]byte, bool) {
	for _, f := range ntsWalk(p) {
		if f.typ != 0x0404 || len(f.body) < 4 {
			continue
		}
		nl := int(f.body[0])<<8 | int(f.body[1])
		cl := int(f.body[2])<<8 | int(f.body[3])
		npad := (nl + 3) &^ 3
		if 4+npad+cl > len(f.body) || nl != 16 {
			return nil, false
		}
		aead, err := miscreant.NewAEAD("AES-CMAC-SIV", key, 16)
		if err != nil {
			return nil, false
		}
		pt, err := aead.Open(nil, f.body[4:4+nl], f.body[4+npad:4+npad+cl], p[:f.off])
		return pt, err == nil
	}
	return nil, false
}

// ntsReseal builds an NTS response the way a holder of the session key can: the given NTP
// header and unique identifier, and plaintext pt (the encrypted extension fields) sealed
// under key with everything before the authenticator as associated data.
func ntsReseal(hdr, uid, pt, key []byte) []byte { return ntsResealNonce(hdr, uid, pt, key, 0) }

// ntsResealNonce is ntsReseal with a chosen nonce (numbered, so that a caller can search for
// a ciphertext with some property).
func ntsResealNonce(hdr, uid, pt, key []byte, nonceNo int) []byte {
	mut := append([]byte(nil), hdr[:48]...)
	mut = append(mut, 0x01, 0x04, byte((4+len(uid))>>8), byte(4+len(uid)))
	mut = append(mut, uid...)
	nonce := make([]byte, 16)
	for i := range nonce {
		nonce[i] = byte(0x30 + i)
	}
	nonce[0], nonce[1] = byte(nonceNo), byte(nonceNo>>8)
	ct := sealSIV(key, nonce, pt, mut)
	ctPad := (len(ct) + 3) &^ 3
	flen := 4 + 4 + 16 + ctPad
	mut = append(mut, 0x04, 0x04, byte(flen>>8), byte(flen), 0, 16, byte(len(ct)>>8), byte(len(ct)))
	mut = append(mut, nonce...)
	mut = append(mut, ct...)
	mut = append(mut, make([]byte, ctPad-len(ct))...)
	return mut
}

func uidOf(p []byte) []byte {
	for _, f := range ntsWalk(p) {
		if f.typ == 0x0104 {
			return f.body
		}
	}
	return nil
}

var _ = bytes.Equal

// sealSIV seals plaintext with AES-SIV-CMAC-256 the way an NTS authenticator does.
func sealSIV(key, nonce, plaintext, ad []byte) []byte {
	aead, err := miscreant.NewAEAD("AES-CMAC-SIV", key, 16)
	if err != nil {
		panic(err)
	}
	return aead.Seal(nil, nonce, plaintext, ad)
}
