//go:build go1.25

package worlds

import (
	"context"
	crand "crypto/rand"
	"encoding/binary"
	"fmt"
	"log/slog"
	"sort"
	gosync "sync"
	"testing"
	"time"

	"github.com/scionproto/scion/pkg/slayers"
	"github.com/scionproto/scion/pkg/snet"

	"example.com/scion-time/base/crypto"
	"example.com/scion-time/core/client"
	"example.com/scion-time/net/ntp"
	"example.com/scion-time/net/scion"

	"verif.local/sim/simcore"
	"verif.local/sim/simsync"
)

// W-scion-multi for C15: the real MeasureClockOffsetSCION with 1..7 real
// SCIONClients and 0..10 offered paths, each through its own relay router, so
// that the path a client used is observed on the wire (clients are told apart by
// their DSCP value). Histories of 2..10 rounds in which paths are withdrawn,
// re-offered and duplicated and exchanges are lost, so that clients enter and
// leave interleaved mode.

// tagHandler tags the per-path goroutines of MeasureClockOffsetSCION (which
// announce themselves with the path they were given) so that their simulated
// socket operations have deterministic identities.
type tagHandler struct {
	mu  gosync.Mutex
	seq map[string]int
}

func (h *tagHandler) Enabled(context.Context, slog.Level) bool { return true }
func (h *tagHandler) WithAttrs([]slog.Attr) slog.Handler       { return h }
func (h *tagHandler) WithGroup(string) slog.Handler            { return h }
func (h *tagHandler) Handle(_ context.Context, rec slog.Record) error {
	if rec.Message != "measuring clock offset" {
		return nil
	}
	via, path := "", ""
	rec.Attrs(func(a slog.Attr) bool {
		switch a.Key {
		case "via":
			via = a.Value.String()
		case "path":
			path = a.Value.String()
		}
		return true
	})
	key := "via:" + via + "|" + path
	h.mu.Lock()
	if h.seq == nil {
		h.seq = map[string]int{}
	}
	h.seq[key]++
	n := h.seq[key]
	h.mu.Unlock()
	simcore.SetTag(fmt.Sprintf("%x#%d", []byte(key), n))
	return nil
}

// enumReader feeds crypto/rand consumers a scripted sequence of 32-bit values.
type enumReader struct {
	vals []uint32
	pos  int
}

func (e *enumReader) Read(b []byte) (int, error) {
	for i := 0; i+4 <= len(b); i += 4 {
		v := uint32(0xffffffff)
		if e.pos < len(e.vals) {
			v = e.vals[e.pos]
		}
		e.pos++
		binary.LittleEndian.PutUint32(b[i:], v)
	}
	return len(b), nil
}

// c15Uniformity drives crypto.Sample through every sequence of accepted draws for
// n <= 7, k <= 4 and counts that every k-subset of the n paths is chosen equally
// often; and checks RandIntn on the rejection boundary.
func c15Uniformity(r *simcore.Run) {
	old := crand.Reader
	defer func() { crand.Reader = old }()
	ctx := context.Background()
	for n := 1; n <= 7; n++ {
		for k := 0; k <= 4 && k <= n; k++ {
			// draws: for i = k..n-1 a value j in [0, i+1)
			var dims []int
			for i := k; i < n; i++ {
				dims = append(dims, i+1)
			}
			counts := map[string]int{}
			idx := make([]int, len(dims))
			total := 0
			for {
				vals := make([]uint32, len(dims))
				for d, j := range idx {
					m := uint32(dims[d])
					// the largest multiple block: value with residue j that is certainly accepted
					vals[d] = (0xffffffff/m-1)*m + uint32(j)
				}
				crand.Reader = &enumReader{vals: vals}
				sel := make([]int, n)
				for i := range sel {
					sel[i] = i
				}
				got, err := crypto.Sample(ctx, k, n, func(dst, src int) { sel[dst] = sel[src] })
				if err != nil || got != k {
					r.Fail("C15", "sample/result", "Sample(%d,%d) returned %d, %v", k, n, got, err)
					return
				}
				sub := append([]int(nil), sel[:k]...)
				seen := map[int]bool{}
				for _, x := range sub {
					if seen[x] {
						r.Fail("C15", "sample/duplicate", "Sample(%d,%d) picked path %d twice", k, n, x)
						return
					}
					seen[x] = true
				}
				sort.Ints(sub)
				counts[fmt.Sprint(sub)]++
				total++
				// next index vector
				d := 0
				for ; d < len(idx); d++ {
					idx[d]++
					if idx[d] < dims[d] {
						break
					}
					idx[d] = 0
				}
				if d == len(idx) {
					break
				}
			}
			want := -1
			for s, c := range counts {
				if want == -1 {
					want = c
				}
				if c != want {
					r.Fail("C15", "sample/not-uniform", "Sample(%d,%d): subset %s chosen %d times, another %d times over all %d draw sequences", k, n, s, c, want, total)
					return
				}
			}
			if nsub := binom(n, k); len(counts) != nsub {
				r.Fail("C15", "sample/subsets-missing", "Sample(%d,%d): %d of %d subsets ever chosen", k, n, len(counts), nsub)
				return
			}
		}
	}
	// RandIntn: residues and the rejection boundary
	for _, n := range []int{1, 2, 3, 5, 7, 10, 1000, 1 << 20, 1<<31 - 1} {
		m := uint32(n)
		t := uint32(-n) % m
		for _, x := range []uint32{t + 1, t + 2, 0xffffffff, 0xfffffffe, t + m, t + m + 1} {
			if x <= t {
				continue
			}
			crand.Reader = &enumReader{vals: []uint32{x}}
			v, err := crypto.RandIntn(ctx, n)
			if err != nil || v != int(x%m) {
				r.Fail("C15", "randintn/value", "RandIntn(%d) with random word %d returned %d, %v", n, x, v, err)
				return
			}
		}
		if n > 1 {
			// words inside the rejection region must be redrawn, never mapped
			crand.Reader = &enumReader{vals: []uint32{0, t, t + 1}}
			v, err := crypto.RandIntn(ctx, n)
			if err != nil || v != int((t+1)%m) {
				r.Fail("C15", "randintn/rejection", "RandIntn(%d): words 0 and %d must be rejected; got %d, %v", n, t, v, err)
				return
			}
		}
	}
	r.Probe("uniformity-enumerated")
}

func binom(n, k int) int {
	c := 1
	for i := 0; i < k; i++ {
		c = c * (n - i) / (i + 1)
	}
	return c
}

func c15World(t *testing.T, r *simcore.Run) any {
	tp := r.Tape
	if r.Index%50 == 0 {
		c15Uniformity(r)
		if r.Violation() != nil {
			return nil
		}
	}
	nrouters := tp.Intn(11, "npaths")
	nclients := 1 + tp.Intn(7, "nclients")
	if tp.Bool(1, 4, "seven") {
		nclients = 7
	}
	// Every sixth run uses the production wiring: timeservice.go's SCION reference clock (seven
	// clients in interleaved mode, each with its Ntimed filter) asking a Pather for the paths.
	wired := r.Index%6 == 5 && Root.NewNTPReferenceClockSCION != nil
	if wired {
		nclients = 7
		r.Probe("wired-reference-clock")
	}
	w := newSCIONWorld(r, time.Duration(tp.Range(0, int64(time.Second), "srvoff")), nrouters)
	w.startServers(2, false, 0, nil, false)
	laddr, raddr := w.udpAddrs()
	log := slog.New(&tagHandler{})
	clients := make([]*client.SCIONClient, nclients)
	filters := make([]*recFilter, nclients)
	noFilter := make([]bool, nclients)
	var wiredClk client.ReferenceClock
	var pather *scion.Pather
	if wired {
		pather = scion.VerifNewPather(quietLog(), scCliIA)
		var cs []*client.SCIONClient
		wiredClk, cs = Root.NewNTPReferenceClockSCION(log, laddr, raddr, 0, pather)
		if len(cs) != nclients {
			r.Fail("harness", "c15/wired-clients", "the wired reference clock has %d clients", len(cs))
			return nil
		}
		for i, c := range cs {
			for j := 0; j < i; j++ {
				if c.Filter == filters[j].inner {
					r.Fail("C15", "wiring/shared-filter", "clients %d and %d of the reference clock share one filter: a client cannot be reset together with *its* filter", j, i)
					return nil
				}
			}
			clients[i] = c
			filters[i] = &recFilter{inner: c.Filter}
			c.Filter = filters[i]
			c.Log = quietLog()
			c.DSCP = uint8(i + 1) // identifies the client on the wire
		}
	} else {
		for i := range clients {
			filters[i] = &recFilter{}
			clients[i] = &client.SCIONClient{Log: quietLog(), DSCP: uint8(i + 1), InterleavedMode: true, Filter: filters[i]}
			if tp.Bool(1, 6, "no-filter") {
				// a client without a filter (as the tool and the benchmark build them): it is reset
				// like any other, there is just no filter to reset with it
				clients[i].Filter = nil
				noFilter[i] = true
				r.Probe("client-without-filter")
			}
		}
	}
	// all paths: path j goes through router j; some carry no fingerprint
	all := make([]snet.Path, nrouters)
	fps := make([]string, nrouters)
	for j := range all {
		salt := j
		if tp.Bool(1, 8, "nofp") {
			salt = -1
		}
		var segs []int
		if tp.Bool(1, 2, "scionpath") {
			segs = []int{2 + tp.Intn(3, "h")}
		}
		all[j] = w.mkPath(j, segs, salt, scCliIA, scSrvIA)
		fps[j] = snet.Fingerprint(all[j]).String()
	}
	lossy := tp.Bool(1, 2, "lossy")
	dropRate := uint64(0)
	if lossy {
		dropRate = uint64(50 + tp.Intn(400, "droprate"))
	}
	kodRate := uint64(0)
	if tp.Bool(1, 3, "kod") {
		kodRate = uint64(100 + tp.Intn(500, "kodrate"))
	}
	round := 0
	type obs struct {
		client, router int
		interleaved    bool
	}
	var seen []obs
	w.onRouter = func(p *scionPkt) (bool, []byte) {
		if p.toSrv && p.isUDP {
			q, ok := decodeNTP(p.pld)
			il := ok && q.ReceiveTime != q.TransmitTime && (q.OriginTime != ntp.Time64{})
			seen = append(seen, obs{client: int(p.scn.TrafficClass>>2) - 1, router: p.router, interleaved: il})
		}
		if dropRate > 0 && tp.Bool(dropRate, 1000, "drop?") {
			r.Fault("scion-packet-lost")
			return true, nil
		}
		if kodRate > 0 && !p.toSrv && p.isUDP && len(p.pld) >= 48 && tp.Bool(kodRate, 1000, "kod?") {
			// the reply reaches the client as a kiss-of-death (stratum 0): that attempt fails at
			// once, not at the deadline; what an earlier attempt of the round measured stands
			if raw := scRebuild(p, func(s *slayers.SCION, u *slayers.UDP, pld *[]byte) { (*pld)[1] = 0 }); raw != nil {
				r.Fault("reply-turned-kiss-of-death")
				return false, raw
			}
		}
		return false, nil
	}
	nrounds := 2 + tp.Intn(9, "rounds")
	longGaps := tp.Bool(1, 3, "longgaps")
	var hist []string
	okRounds, errRounds := 0, 0
	w.goSafe("driver", func() {
		defer r.Finish()
		for ; round < nrounds && r.Violation() == nil; round++ {
			// rounds a fraction of a second to minutes apart (sync intervals are configurable; a
			// client keeps its path however long ago its previous exchange was)
			gap := time.Duration(tp.Range(int64(100*time.Millisecond), int64(2500*time.Millisecond), "gap"))
			if longGaps {
				gap = []time.Duration{3 * time.Second, 3*time.Second + 1, 5 * time.Second, 16 * time.Second, 64 * time.Second, 17 * time.Minute}[tp.Intn(6, "longgap")]
				r.Probe("rounds-seconds-to-minutes-apart")
			}
			if r.Sleep(fmt.Sprintf("gap:%d", round), w.cli.Node, gap).Killed {
				return
			}
			// offered paths this round
			var offered []int
			for j := 0; j < nrouters; j++ {
				if tp.Bool(3, 4, "offer") {
					offered = append(offered, j)
					// (the same path is never listed twice: two goroutines probing over identical
					// paths could not be told apart by the scheduler, and a SCION daemon does not
					// return duplicates)
				}
			}
			// shuffle the offer
			for i := len(offered) - 1; i > 0; i-- {
				j := tp.Intn(i+1, "shuf")
				offered[i], offered[j] = offered[j], offered[i]
			}
			ps := make([]snet.Path, len(offered))
			offeredFP := map[string]int{}
			for i, j := range offered {
				ps[i] = all[j]
				if fps[j] != "" {
					offeredFP[fps[j]] = j
				}
			}
			distinctOffered := map[int]bool{}
			for _, j := range offered {
				distinctOffered[j] = true
			}
			// client state before the round
			inIL := make([]bool, nclients)
			prevFP := make([]string, nclients)
			resets0 := make([]int, nclients)
			calls0 := make([]int, nclients)
			for i, c := range clients {
				inIL[i] = c.InInterleavedMode()
				prevFP[i] = c.InterleavedModePath()
				if client.VerifSCIONPrevState != nil {
					// from the client's record of its previous exchange, not from what its own
					// accessors make of it: in interleaved mode = configured for it, and the last
					// response it accepted (no reset since) was an interleaved one
					ref, pth, il := client.VerifSCIONPrevState(c)
					inIL[i] = c.InterleavedMode && ref != "" && il
					prevFP[i] = ""
					if inIL[i] {
						prevFP[i] = pth
					}
				}
				resets0[i] = filters[i].resets
				calls0[i] = len(filters[i].calls)
			}
			seen = seen[:0]
			ctx, cancel := simsync.WithTimeout(context.Background(), 400*time.Millisecond)
			roundStart := time.Now()
			var off time.Duration
			var err error
			if wired {
				pather.VerifSetPaths(scSrvIA, ps)
				_, off, err = wiredClk.MeasureClockOffset(ctx)
			} else {
				_, off, err = client.MeasureClockOffsetSCION(ctx, log, clients, laddr, raddr, ps)
			}
			cancel()
			simcore.SetTag("driver")
			line := fmt.Sprintf("round %d: %d clients, offered %v -> err=%v", round, nclients, offered, err)
			// ---- who used which path
			usedBy := map[int]int{}   // router -> client
			pathOf := map[int]int{}   // client -> router
			firstIL := map[int]bool{} // client -> its first request of the round was interleaved
			for _, o := range seen {
				if o.client < 0 || o.client >= nclients {
					r.Fail("harness", "c15/client-id", "unexpected DSCP on the wire")
					return
				}
				if prev, ok := pathOf[o.client]; ok && prev != o.router {
					r.Fail("C15", "round/client-switched-path", "%s: client %d used paths %d and %d in one round", line, o.client, prev, o.router)
					return
				}
				if _, ok := pathOf[o.client]; !ok {
					firstIL[o.client] = o.interleaved
				}
				pathOf[o.client] = o.router
				if c2, ok := usedBy[o.router]; ok && c2 != o.client {
					// (a path that the offer lists twice counts as two paths)
					mult := 0
					for _, j := range offered {
						if j == o.router {
							mult++
						}
					}
					users := map[int]bool{o.client: true}
					for _, o2 := range seen {
						if o2.router == o.router {
							users[o2.client] = true
						}
					}
					if len(users) > mult {
						r.Fail("C15", "round/path-shared", "%s: clients %d and %d probed over the same path %d", line, c2, o.client, o.router)
						return
					}
				}
				usedBy[o.router] = o.client
			}
			if len(offered) == 0 {
				if err == nil {
					r.Fail("C15", "round/no-path-no-error", "%s: no path offered, yet no error", line)
					return
				}
				// nothing is offered, so no client's previous path is: each one that was in
				// interleaved mode is reset together with its filter, whatever the round reports
				for i, c := range clients {
					if !inIL[i] {
						continue
					}
					if c.InInterleavedMode() || (filters[i].resets == resets0[i] && !noFilter[i]) {
						r.Fail("C15", "sticky/not-reset", "%s: client %d was in interleaved mode on %q, no path at all is offered, and it was not reset together with its filter (still interleaved: %v, filter resets: %d)",
							line, i, prevFP[i], c.InInterleavedMode(), filters[i].resets-resets0[i])
						return
					}
					r.Probe("reset-in-round-without-paths")
				}
				errRounds++
				r.Probe("no-path-error")
				hist = append(hist, line)
				continue
			}
			if err != nil {
				// with paths on offer a round fails only if not one client completed a measurement
				// (then there is no value to report: C05 forbids an offset without an accepted
				// response)
				completed := 0
				for i := range clients {
					if len(filters[i].calls) > calls0[i] {
						completed++
					}
				}
				// (a result that becomes ready at the very instant of the deadline may lose against
				// the cancellation: a round that lasted until its deadline may have lost them all)
				if len(pathOf) == 0 {
					// nobody even sent a request
					r.Fail("C15", "round/error-with-paths", "%s: error although %d paths were offered, and no client probed any of them", line, len(offered))
					return
				}
				if completed > 0 && time.Since(roundStart) < 400*time.Millisecond {
					r.Fail("C15", "round/error-with-paths", "%s: error although %d paths were offered and %d client(s) completed a measurement", line, len(offered), completed)
					return
				}
				errRounds++
				r.Probe("round-without-a-completed-measurement")
				hist = append(hist, line)
				continue
			}
			if len(pathOf) > len(offered) {
				r.Fail("C15", "round/more-clients-than-paths", "%s: %d clients took part, %d paths offered", line, len(pathOf), len(offered))
				return
			}
			want := min(nclients, len(offered))
			if !lossy && len(pathOf) != min(nclients, len(distinctOffered)) && len(offered) == len(distinctOffered) {
				r.Fail("C15", "round/participation", "%s: %d clients took part, expected %d", line, len(pathOf), want)
				return
			}
			for c, rt := range pathOf {
				if !distinctOffered[rt] {
					r.Fail("C15", "round/path-not-offered", "%s: client %d probed over path %d which was not offered", line, c, rt)
					return
				}
			}
			// stickiness and reset
			for i := range clients {
				if !inIL[i] {
					// "otherwise reset together with its filter": a client that is not in interleaved
					// mode starts every round afresh
					if _, took := pathOf[i]; took && filters[i].resets == resets0[i] && !noFilter[i] {
						r.Fail("C15", "sticky/not-reset-outside-interleaved-mode", "%s: client %d was not in interleaved mode before the round, took part, and its filter was not reset", line, i)
						return
					}
					if _, took := pathOf[i]; took {
						r.Probe("reset-outside-interleaved-mode")
					}
					continue
				}
				j, offeredStill := offeredFP[prevFP[i]]
				rt, took := pathOf[i]
				if offeredStill && prevFP[i] != "" {
					if took && rt != j {
						r.Fail("C15", "sticky/left-offered-path", "%s: client %d was in interleaved mode on path %d which is still offered, but probed over path %d", line, i, j, rt)
						return
					}
					if took && filters[i].resets != resets0[i] {
						r.Fail("C15", "sticky/reset-although-kept", "%s: client %d kept its path but its filter was reset", line, i)
						return
					}
					if took {
						r.Probe("sticky-path-kept")
					}
				} else {
					if filters[i].resets == resets0[i] && !noFilter[i] {
						r.Fail("C15", "sticky/not-reset", "%s: client %d lost its interleaved path (%q no longer offered) but its filter was not reset", line, i, prevFP[i])
						return
					}
					if took && firstIL[i] {
						r.Fail("C15", "sticky/interleaved-on-new-path", "%s: client %d sent an interleaved request over a new path", line, i)
						return
					}
					r.Probe("reset-after-path-withdrawn")
				}
			}
			// combination: one value per participating client
			var vals []time.Duration
			for i := range clients {
				if n := len(filters[i].calls); n > calls0[i] {
					vals = append(vals, filters[i].outs[n-1]) // the client's (filtered) value of this round
				}
			}
			// one value per client that completed a measurement. When the round came back before
			// its deadline every client has reported, so the values of those that completed are
			// exactly what was collected, however many others failed (and in whatever order);
			// a round that ran into its deadline is judged only when all of them completed
			noFilterTookPart := false
			for i := range clients {
				if _, took := pathOf[i]; took && noFilter[i] {
					noFilterTookPart = true
				}
			}
			early := time.Since(roundStart) < 400*time.Millisecond
			if len(vals) > 0 && !noFilterTookPart && ((len(vals) == len(pathOf) && !lossy) || early) {
				if len(vals) < len(pathOf) {
					r.Probe("ftm-checked-with-failed-clients")
				}
				lo, hi := c01FTM(vals)
				wantOff := lo + (hi-lo)/2
				if absDur(off-wantOff) > 1 {
					r.Fail("C15", "combine/not-ftm", "%s: reported %v, fault-tolerant midpoint of the %d per-client values is %v", line, off, len(vals), wantOff)
					return
				}
				r.Probe("ftm-checked")
			}
			okRounds++
			r.Probe("round-checked")
			if len(pathOf) >= 2 {
				r.Probe("multi-client-round")
			}
			hist = append(hist, fmt.Sprintf("%s used=%v", line, pathOf))
			r.Log("%s used=%v", line, fmt.Sprint(pathOf))
		}
		// a second after the last round every per-path measurement has returned (their
		// deadline was 400 ms): nothing of a round's own goroutines - senders whose result came
		// after the deadline, the collector's drain - may be left behind
		if r.Violation() != nil || r.Sleep("quiesce", w.cli.Node, time.Second).Killed {
			return
		}
		left := ""
		for _, g := range simcore.BubbleGoroutines() {
			if containsAny(g, "core/client.MeasureClockOffsetSCION", "core/client.collectMeasurements") {
				if len(g) > 700 {
					g = g[:700]
				}
				left += g + "\n"
			}
		}
		if left != "" {
			r.Fail("C15", "round/goroutines-left", "goroutine(s) of a measurement round left a second after the last round:\n%s", left)
		} else {
			r.Probe("quiescent-after-rounds")
		}
	})
	reason := r.Loop(5_000_000, 0)
	r.SetVT()
	r.Drain()
	if reason != "" && r.Violation() == nil {
		r.Fail("harness", "c15/"+reason, "scheduler stopped: %s pending=%v", reason, r.IdlePending)
	}
	r.Count("rounds", int64(okRounds+errRounds))
	if len(hist) > 10 {
		hist = hist[:10]
	}
	return map[string]any{"clients": nclients, "paths": nrouters, "rounds": nrounds, "lossy": lossy, "history": hist}
}

func init() {
	simcore.Registry["C15"] = &simcore.Spec{
		World:      c15World,
		NonTrivial: func(r *simcore.Run) bool { return r.Counts["rounds"] >= 2 },
	}
}
