//go:build go1.25

package worlds

import (
	"bytes"
	"crypto/rand"
	"encoding/binary"
	"fmt"
	"net/netip"
	"testing"
	"time"

	"example.com/scion-time/core/client"
	"example.com/scion-time/net/ntp"

	"verif.local/sim/simcore"
	"verif.local/sim/simnet"
)

// W-ntp-ip for C05: an attacker node sees every request and delivers, before or
// instead of the genuine response, crafted datagrams: arbitrary bytes, the
// genuine response with one field changed, the genuine response from another
// source address, replays of earlier responses, forged responses, and (with NTS)
// the response stripped of its NTS fields. The oracle is differential: an offset
// may be reported only if the datagram the client consumed last satisfies the
// predicate of the statement.

func c05Predicate(d *simnet.Datagram, req ntp.Packet, srv netip.Addr, nts bool, s2c []byte, reqUID []byte, now time.Time) (bool, string) {
	if d.Src.Addr().Unmap() != srv {
		return false, "source address is not the queried server"
	}
	p, ok := decodeNTP(d.Payload)
	if !ok {
		return false, "shorter than an NTP header"
	}
	ilReq := req.ReceiveTime != req.TransmitTime && (req.OriginTime != ntp.Time64{} || req.ReceiveTime != ntp.Time64{})
	if !(p.OriginTime == req.TransmitTime || (ilReq && p.OriginTime == req.ReceiveTime)) {
		return false, "origin does not echo the outstanding request"
	}
	if p.Mode() != ntp.ModeServer {
		return false, "not server mode"
	}
	if v := p.Version(); v != 3 && v != 4 {
		return false, "version not 3 or 4"
	}
	if p.LeapIndicator() == 3 {
		return false, "leap status unknown"
	}
	if p.Stratum < 1 || p.Stratum > 15 {
		return false, "stratum not in 1..15"
	}
	// transmit not before receive: for an interleaved response the transmit time belongs to
	// the previous exchange, whose receive time the interleaved request carried as its origin
	rx := p.ReceiveTime
	if ilReq && p.OriginTime == req.ReceiveTime && p.OriginTime != req.TransmitTime {
		rx = req.OriginTime
	}
	if ntp.TimeFromTime64(p.TransmitTime, now).Before(ntp.TimeFromTime64(rx, now)) {
		return false, "transmit time before receive time"
	}
	if nts {
		if !bytes.Equal(uidOf(d.Payload), reqUID) || len(reqUID) == 0 {
			return false, "unique identifier differs"
		}
		if _, ok := ntsVerify(d.Payload, s2c); !ok {
			return false, "does not verify under the server-to-client key"
		}
	}
	return true, ""
}

// c05Provenance checks where the server receive timestamp t1 of a reported offset comes
// from: "only on the basis of a datagram that ..." - for a basic response the accepted
// datagram itself, for an interleaved one the datagram the previous successful measurement
// accepted. State left behind by a datagram that was rejected must not enter a measurement.
// prevRx is the receive timestamp field of the previously accepted response (zero: none).
func c05Provenance(req, resp ntp.Packet, ts [4]time.Time, prevRx ntp.Time64) string {
	ilReq := req.ReceiveTime != req.TransmitTime && (req.OriginTime != ntp.Time64{} || req.ReceiveTime != ntp.Time64{})
	want := resp.ReceiveTime
	what := "the accepted response's receive timestamp"
	if ilReq && resp.OriginTime == req.ReceiveTime && resp.OriginTime != req.TransmitTime {
		if prevRx == (ntp.Time64{}) {
			return ""
		}
		want, what = prevRx, "the receive timestamp of the response the previous successful measurement accepted"
	}
	if d := absDur(ts[1].Sub(ntp.TimeFromTime64(want, ts[1]))); d > 2*time.Nanosecond {
		return fmt.Sprintf("t1 of the reported offset is %v away from %s", d, what)
	}
	return ""
}

func c05World(t *testing.T, r *simcore.Run) any {
	if r.Index%4 == 3 {
		return c05SCIONWorld(r)
	}
	tp := r.Tape
	useNTS := tp.Bool(1, 3, "nts")
	ipDrawFamily(r)
	var w *ipWorld
	var cl *client.IPClient
	var nw *ntsWorld
	filter := &recFilter{}
	if useNTS {
		nw = newNTSWorld(r, 2)
		w = nw.ipWorld
		cl = nw.cl
		cl.Filter = filter
	} else {
		w = newIPWorld(r, time.Duration(tp.Range(0, int64(10*time.Second), "srvoff")), 0)
		w.startListeners(2, nil)
		cl = &client.IPClient{Log: quietLog(), InterleavedMode: tp.Bool(1, 2, "interleaved"), Filter: filter}
	}
	srvIP := netip.MustParseAddr(ipSrvIP)
	nmeas := 4 + tp.Intn(20, "nmeas")
	attackRate := uint64(300 + tp.Intn(600, "attackrate"))
	var curReq *simnet.Datagram
	var history [][]byte           // earlier genuine responses
	attacks := map[uint64]string{} // injected datagram id -> kind
	attacked := false
	var kindsUsed []string
	w.net.OnSend = func(d *simnet.Datagram) {
		if d.SrcConn != nil && d.SrcConn.Host() == w.cli && len(d.Payload) >= 48 && d.Dst.Port() == ipPort {
			curReq = d
		}
	}
	put16 := binary.BigEndian.PutUint16
	_ = put16
	w.net.Intercept = func(d *simnet.Datagram) ([]simnet.Route, bool) {
		if d.SrcConn == nil || d.SrcConn.Host() != w.srv || len(d.Payload) < 48 || curReq == nil || d.Cause != curReq.ID {
			return nil, false
		}
		genuine := append([]byte(nil), d.Payload...)
		defer func() { history = append(history, genuine) }()
		if !tp.Bool(attackRate, 1000, "attack?") {
			return nil, false
		}
		attacked = true
		var routes []simnet.Route
		n := 1 + tp.Intn(2, "nattack")
		for i := 0; i < n; i++ {
			src := d.Src
			var pl []byte
			kind := ""
			switch tp.Intn(13, "akind") {
			case 12:
				// a response of the session's server key holder with one header field changed and the
				// authenticator recomputed: authentic, same unique identifier - and still not acceptable
				if !useNTS {
					continue
				}
				s2c := cl.Auth.NTSKEFetcher.VerifData().S2cKey
				pt, ok := ntsOpenRaw(genuine, s2c)
				if !ok {
					continue
				}
				hdr := append([]byte(nil), genuine[:48]...)
				switch tp.Intn(3, "resealed") {
				case 0:
					kind = "nts-resealed-origin-changed"
					hdr[24+tp.Intn(8, "ob")] ^= 1 << tp.Intn(8, "obit")
				case 1:
					kind = "nts-resealed-stratum-0"
					hdr[1] = 0
				default:
					kind = "nts-resealed-li-3"
					hdr[0] |= 0xc0
				}
				pl = ntsReseal(hdr, uidOf(genuine), pt, s2c)
			case 0:
				kind = "random-bytes"
				pl = make([]byte, []int{0, 1, 47, 48, 60, 200, 1024}[tp.Intn(7, "rlen")])
				rand.Read(pl)
			case 1, 2, 3:
				pl = append([]byte(nil), genuine...)
				switch tp.Intn(10, "field") {
				case 9:
					kind = "receive-decades-ahead-transmit-decades-back"
					c05SpreadServerTimes(pl, tp)
				case 0:
					kind = "li=3"
					pl[0] |= 0xc0
				case 1:
					v := []byte{0, 1, 2, 5, 6, 7, 3}[tp.Intn(7, "ver")]
					kind = fmt.Sprintf("version=%d", v)
					pl[0] = pl[0]&0xc7 | v<<3
				case 2:
					m := []byte{0, 1, 2, 3, 5, 6, 7}[tp.Intn(7, "mode")]
					kind = fmt.Sprintf("mode=%d", m)
					pl[0] = pl[0]&0xf8 | m
				case 3:
					s := []byte{0, 16, 17, 255, 15, 2}[tp.Intn(6, "stratum")]
					kind = fmt.Sprintf("stratum=%d", s)
					pl[1] = s
				case 4:
					kind = "origin-changed"
					pl[24+tp.Intn(8, "ob")] ^= 1 << tp.Intn(8, "obit")
				case 5:
					kind = "origin-zero"
					for j := 24; j < 32; j++ {
						pl[j] = 0
					}
				case 6:
					kind = "transmit-before-receive"
					copy(pl[40:48], pl[32:40])
					pl[40] -= 1 // about 194 days earlier
				case 7:
					kind = "receive-changed"
					pl[36+tp.Intn(4, "rb")] ^= 1 << tp.Intn(8, "rbit")
				default:
					kind = "transmit-changed"
					pl[44+tp.Intn(4, "tb")] ^= 1 << tp.Intn(8, "tbit")
				}
			case 4:
				kind = "other-source"
				pl = append([]byte(nil), genuine...)
				src = netip.AddrPortFrom(netip.MustParseAddr(ipAtkIP), d.Src.Port())
			case 5:
				kind = "other-source-port-only"
				pl = append([]byte(nil), genuine...)
				src = netip.AddrPortFrom(d.Src.Addr(), 4444)
			case 6:
				if len(history) == 0 {
					continue
				}
				kind = "replay-earlier-response"
				pl = append([]byte(nil), history[tp.Intn(len(history), "hist")]...)
			case 7:
				kind = "forged-from-other-source"
				pl = c05Forge(curReq.Payload)
				src = netip.AddrPortFrom(netip.MustParseAddr(ipAtkIP), ipPort)
			case 8:
				kind = "request-reflected"
				pl = append([]byte(nil), curReq.Payload...)
			case 9:
				if !useNTS {
					continue
				}
				kind = "nts-stripped"
				pl = append([]byte(nil), genuine[:48]...)
			case 10:
				if !useNTS {
					continue
				}
				kind = "nts-uid-changed"
				pl = append([]byte(nil), genuine...)
				pl[52+tp.Intn(32, "uidb")] ^= 1
			default:
				kind = "forged-zero-origin-from-server-address"
				pl = c05Forge(curReq.Payload)
				for j := 24; j < 32; j++ {
					pl[j] = 0
				}
			}
			if pl == nil {
				continue
			}
			a := w.net.NewDatagram(src, d.Dst, pl, "attack:"+kind)
			attacks[a.ID] = kind
			kindsUsed = append(kindsUsed, kind)
			routes = append(routes, simnet.Route{D: a, Delay: time.Duration(20+tp.Intn(60, "adelay")) * time.Microsecond})
			r.Fault("crafted-datagram")
		}
		if tp.Bool(3, 4, "deliver-genuine") {
			routes = append(routes, simnet.Route{D: d, Delay: 150 * time.Microsecond})
		} else {
			r.Fault("genuine-withheld")
		}
		return routes, true
	}
	// per attempt (one socket each): the request it sent, and whether it evaluated a response
	reqOf := map[*simnet.UDPConn]*simnet.Datagram{}
	prevOnSend := w.net.OnSend
	w.net.OnSend = func(d *simnet.Datagram) {
		prevOnSend(d)
		if d.SrcConn != nil && d.SrcConn.Host() == w.cli && len(d.Payload) >= 48 && d.Dst.Port() == ipPort && reqOf[d.SrcConn] == nil {
			reqOf[d.SrcConn] = d
		}
	}
	seenCalls := 0
	var prevAcceptedRx ntp.Time64
	ok, rejected, acceptedAttack, evaluated := 0, 0, 0, 0
	var samples []string
	w.net.OnClose = func(c *simnet.UDPConn) {
		if c.Host() != w.cli {
			return
		}
		q := reqOf[c]
		delete(reqOf, c)
		if len(filter.calls) == seenCalls {
			return // this attempt reported nothing
		}
		seenCalls = len(filter.calls)
		evaluated++
		last := c.LastRecv
		if last == nil || q == nil {
			r.Fail("C05", "report/without-datagram", "an attempt reported an offset without having read a datagram")
			return
		}
		req, _ := decodeNTP(q.Payload)
		var s2c, uid []byte
		if useNTS {
			s2c = cl.Auth.NTSKEFetcher.VerifData().S2cKey
			uid = uidOf(q.Payload)
		}
		good, why := c05Predicate(last, req, srvIP, useNTS, s2c, uid, time.Now())
		if kind, isAttack := attacks[last.ID]; isAttack {
			acceptedAttack++
			if !good {
				r.Fail("C05", "accepted/"+kind, "an offset was reported from a crafted datagram (%s): %s", kind, why)
				return
			}
			r.Probe("crafted-but-valid-accepted")
		} else if !good {
			r.Fail("C05", "accepted/invalid-genuine", "accepted datagram %d fails the predicate: %s", last.ID, why)
			return
		}
		if resp, ok := decodeNTP(last.Payload); ok {
			if why := c05Provenance(req, resp, filter.calls[len(filter.calls)-1], prevAcceptedRx); why != "" {
				r.Fail("C05", "provenance/t1", "%s", why)
				return
			}
			prevAcceptedRx = resp.ReceiveTime
			r.Probe("provenance-checked")
		}
	}
	w.goSafe("driver", func() {
		defer r.Finish()
		for k := 0; k < nmeas && r.Violation() == nil; k++ {
			if r.Sleep(fmt.Sprintf("gap:%d", k), w.cli.Node, time.Duration(tp.Range(int64(20*time.Millisecond), int64(2*time.Second), "gap"))).Killed {
				return
			}
			attacked, curReq = false, nil
			ev0 := evaluated
			_, _, err := w.measureIP(cl, 300*time.Millisecond)
			if err != nil {
				rejected++
				r.Probe("measurement-failed")
				if !attacked && curReq != nil {
					r.Fail("C05", "genuine/rejected", "measurement %d failed although nothing was injected or withheld: %v", k, err)
					return
				}
				continue
			}
			ok++
			if evaluated == ev0 {
				r.Fail("C05", "report/without-datagram", "measurement %d reported an offset without evaluating a datagram", k)
				return
			}
			if attacked {
				r.Probe("succeeded-under-attack")
			} else {
				r.Probe("clean-exchange")
			}
			if len(samples) < 5 && attacked {
				samples = append(samples, fmt.Sprintf("measurement %d ok under attack %v", k, kindsUsed[max(0, len(kindsUsed)-2):]))
			}
		}
	})
	reason := r.Loop(3_000_000, 0)
	r.SetVT()
	r.Drain()
	if reason != "" && r.Violation() == nil {
		r.Fail("harness", "c05/"+reason, "scheduler stopped: %s pending=%v", reason, r.IdlePending)
	}
	r.Count("measurements", int64(ok+rejected))
	r.Count("attacks", int64(len(attacks)))
	return map[string]any{"nts": useNTS, "interleaved": cl.InterleavedMode, "measurements": nmeas, "ok": ok, "failed": rejected,
		"crafted_datagrams": len(attacks), "crafted_accepted_legitimately": acceptedAttack, "examples": samples}
}

// c05Forge builds a response the way an on-path attacker who saw the request can:
// correct origin echo, plausible metadata and timestamps.
// c05SpreadServerTimes moves the server's receive time 35..60 years ahead and its transmit
// time as far back: each alone is within half an era of the client's time, together they
// are more than 2^31 s apart (transmit before receive by any reading anchored at the client).
func c05SpreadServerTimes(b []byte, tp *simcore.Tape) {
	n := uint32([]int{35, 40, 60}[tp.Intn(3, "years")]) * 31557600
	binary.BigEndian.PutUint32(b[32:], binary.BigEndian.Uint32(b[32:])+n)
	binary.BigEndian.PutUint32(b[40:], binary.BigEndian.Uint32(b[40:])-n)
}

func c05Forge(req []byte) []byte {
	q, _ := decodeNTP(req)
	var p ntp.Packet
	p.SetVersion(4)
	p.SetMode(ntp.ModeServer)
	p.Stratum = 1
	p.OriginTime = q.TransmitTime
	now := time.Now().Add(5 * time.Second)
	p.ReceiveTime = ntp.Time64FromTime(now)
	p.TransmitTime = ntp.Time64FromTime(now.Add(time.Microsecond))
	var b []byte
	ntp.EncodePacket(&b, &p)
	return b
}

func init() {
	simcore.Registry["C05"] = &simcore.Spec{
		World:      c05World,
		NonTrivial: func(r *simcore.Run) bool { return r.Counts["attacks"] >= 1 && r.Counts["measurements"] >= 2 },
	}
}
