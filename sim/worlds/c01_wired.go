//go:build go1.25

package worlds

import (
	"context"
	"fmt"
	"log/slog"
	"math"
	"net"
	gosync "sync"
	"time"

	"example.com/scion-time/core/client"
	"example.com/scion-time/core/server"
	"example.com/scion-time/core/sync"

	"verif.local/sim/simclock"
	"verif.local/sim/simcore"
)

// The second configuration of W-sync: the whole IP service wired the way
// timeservice.go wires it - sync.Run with the default configuration
// (syncConfig), reference clocks made by newNTPReferenceClockIP (real IPClient in
// interleaved mode with the Ntimed filter), each talking to real runIPServer
// listeners of its own server host on the simulated network with loss and delay.
// The oracle is the part of C01 that does not need to know the sources' values:
// exactly one correction per round, within the reference cap, no later than the
// round's timeout.

// toHandler tags the per-clock goroutines of MeasureClockOffsets (which announce
// the server they measure) so that their socket operations have stable identities.
type toHandler struct {
	mu  gosync.Mutex
	seq map[string]int
}

func (h *toHandler) Enabled(context.Context, slog.Level) bool { return true }
func (h *toHandler) WithAttrs([]slog.Attr) slog.Handler       { return h }
func (h *toHandler) WithGroup(string) slog.Handler            { return h }
func (h *toHandler) Handle(_ context.Context, rec slog.Record) error {
	if rec.Message != "measuring clock offset" {
		return nil
	}
	to := ""
	rec.Attrs(func(a slog.Attr) bool {
		if a.Key == "to" {
			to = a.Value.String()
		}
		return true
	})
	h.mu.Lock()
	if h.seq == nil {
		h.seq = map[string]int{}
	}
	h.seq[to]++
	n := h.seq[to]
	h.mu.Unlock()
	simcore.SetTag(fmt.Sprintf("to:%s#%d", to, n))
	return nil
}

func c01WiredWorld(r *simcore.Run) any {
	tp := r.Tape
	w := newIPWorld(r, 0, 0)
	nsrv := 1 + tp.Intn(4, "nsrv")
	cfg := Root.DefaultSyncConfig()
	drift := 2e-5
	log := slog.New(&toHandler{})
	var refs []client.ReferenceClock
	m := server.VerifNewIPServerMetrics()
	for i := 0; i < nsrv; i++ {
		ip := fmt.Sprintf("10.0.2.%d", i+1)
		off := time.Duration(tp.Range(0, int64(20*time.Millisecond), "srvoff")) - 10*time.Millisecond
		h := w.net.AddHost(fmt.Sprintf("srv%d", i), simclock.New(off, tp.Range(0, 100000, "skew")-50000, 1e-5), ip)
		for k := 0; k < 2; k++ {
			c, err := w.net.Listen(fmt.Sprintf("%s:%d", ip, ipPort), true)
			if err != nil {
				panic(err)
			}
			conn := c
			w.goSafe(fmt.Sprintf("L%d.%d", i, k), func() {
				server.VerifRunIPServer(context.Background(), quietLog(), m, conn, "", 0, nil)
			})
		}
		_ = h
		refs = append(refs, Root.NewNTPReferenceClockIP(log, udpAddr(ipCliIP, 0), &net.UDPAddr{IP: net.ParseIP(ip), Port: ipPort}, 0, nil, "", false))
	}
	plan := &w.net.Plan
	plan.MinLatency = time.Duration(tp.Range(0, int64(2*time.Millisecond), "minlat"))
	plan.MaxLatency = plan.MinLatency + time.Duration(tp.Range(0, int64(30*time.Millisecond), "jit"))
	if tp.Bool(1, 2, "lossy") {
		plan.Drop = uint64(tp.Range(10, 400, "drop"))
		plan.Dup = uint64(tp.Range(0, 200, "dup"))
		plan.LongDelay = uint64(tp.Range(0, 200, "long"))
		plan.LongDelayMax = time.Second
	}
	rounds := 4 + tp.Intn(20, "rounds")
	clk := w.cli.Clock
	clkD := simclock.New(0, 0, drift) // same readings as the client host's clock, with the configured drift
	capNs := cfg.ReferenceClockImpact * float64(clkD.Drift(cfg.SyncInterval))
	rec := &c01Recorder{r: r}
	sleeps := 0
	roundStart := time.Now()
	lastDo := 0
	finished := false
	clkD.SleepFn = func(d time.Duration) {
		k := sleeps
		sleeps++
		if n := len(rec.dos) - lastDo; n != 1 {
			r.Fail("C01", "wired/corrections", "round %d handed %d corrections to the discipline", k, n)
		} else {
			do := rec.dos[len(rec.dos)-1]
			if math.Abs(float64(do.corr)) > capNs+2 {
				r.Fail("C01", "wired/bound", "round %d: |correction| %v exceeds the reference cap %.1f ns", k, do.corr, capNs)
			}
			if do.at.Sub(roundStart) > cfg.SyncTimeout {
				r.Fail("C01", "wired/late", "round %d: correction %v after the round started, timeout %v", k, do.at.Sub(roundStart), cfg.SyncTimeout)
			}
			if do.corr != 0 {
				r.Probe("wired-nonzero-correction")
			}
		}
		lastDo = len(rec.dos)
		r.Probe("wired-round")
		if sleeps >= rounds || r.Violation() != nil {
			finished = true
			r.Finish()
		}
		r.ParkOrExit(&simcore.Op{ID: fmt.Sprintf("sleep:%d", k), Node: w.cli.Node, Deadline: time.Now().Add(d), NoDelay: true})
		roundStart = time.Now()
	}
	_ = clk
	var panicked any
	w.goSafe("sync", func() {
		defer func() {
			if p := recover(); p != nil {
				panicked = p
				panic(p)
			}
			if !finished {
				r.Finish()
			}
		}()
		if r.Sleep("start", w.cli.Node, 0).Killed {
			return
		}
		roundStart = time.Now()
		sync.Run(quietLog(), cfg, clkD, rec, refs, nil)
	})
	reason := r.Loop(5_000_000, 0)
	r.SetVT()
	r.Drain()
	if reason != "" && r.Violation() == nil {
		r.Fail("harness", "c01w/"+reason, "scheduler stopped: %s pending=%v", reason, r.IdlePending)
	}
	_ = panicked
	r.Count("rounds", int64(sleeps))
	return map[string]any{"wired": true, "servers": nsrv, "rounds": sleeps, "config": fmt.Sprintf("%+v", cfg), "plan": fmt.Sprintf("%+v", *plan)}
}
