//go:build go1.25

package worlds

import (
	"fmt"
	"math"
	"sort"
	"testing"
	"time"

	"example.com/scion-time/core/client"
	"example.com/scion-time/core/measurements"

	"verif.local/sim/simclock"
	"verif.local/sim/simcore"
)

// W-filter: the two offset filters fed with the timestamps of simulated exchanges
// (delays and jitter from a network model, clock offset between the two ends),
// with explicit resets and clock-epoch changes at tape-chosen positions.

type c17Sample struct{ t0, t1, t2, t3 time.Time }

func (s c17Sample) off() time.Duration { return (s.t1.Sub(s.t0) + s.t2.Sub(s.t3)) / 2 }
func (s c17Sample) rtd() time.Duration { return s.t3.Sub(s.t0) - s.t2.Sub(s.t1) }

func c17Gen(tp *simcore.Tape, n int, base time.Time, distinctRTD bool) []c17Sample {
	theta := time.Duration(tp.Range(0, int64(2*time.Second), "theta"))
	if tp.Bool(1, 2, "thetaneg") {
		theta = -theta
	}
	if tp.Bool(1, 6, "thetabig") {
		theta *= 100000
	}
	jitter := []int64{0, 1000, 1000000, 200000000}[tp.Intn(4, "jitter")]
	jitter2 := jitter
	if tp.Bool(1, 2, "asym") {
		// different jitter in the two directions (a quiet forward and a noisy return path, or the reverse)
		jitter2 = []int64{0, 1000, 1000000, 200000000}[tp.Intn(4, "jitter2")]
	}
	minDelay := tp.Range(0, 50_000_000, "mindelay")
	// a server whose clock runs fast while it holds the request (or whose timestamps are
	// coarse) reports a dwell longer than the real one: round-trip delays around and below zero
	overstated := tp.Bool(1, 4, "dwell-overstated")
	seen := map[time.Duration]bool{}
	var out []c17Sample
	t := base
	// the lucky-packet histories also see the client's clock stepped backwards between
	// samples ("the last N samples" are the last N handed in, whatever their timestamps say)
	backSteps := distinctRTD && tp.Bool(1, 4, "client-steps-back")
	quietForward := !distinctRTD && tp.Bool(1, 5, "quiet-forward")
	if quietForward {
		// a forward path without any noise (every request takes exactly as long) while the
		// return path jitters: each sample then lies exactly on the learned lower bound
		jitter = 0
		if jitter2 == 0 {
			jitter2 = 1000000
		}
	}
	for i := 0; i < n; i++ {
		t = t.Add(time.Duration(tp.Range(1, int64(4*time.Second), "gap")))
		if backSteps && i > 0 && tp.Bool(1, 6, "step-now") {
			step := []time.Duration{time.Second, time.Minute, time.Hour}[tp.Intn(3, "stepsize")]
			t = t.Add(-step)
			theta += step
		}
		for try := 0; ; try++ {
			d1 := time.Duration(minDelay + tp.Range(0, jitter, "d1"))
			d2 := time.Duration(minDelay + tp.Range(0, jitter2, "d2"))
			proc := time.Duration(tp.Range(0, 300_000, "proc"))
			drift := time.Duration(tp.Range(0, 2000, "wander")) // slow wander of the true offset
			if quietForward {
				drift = 0
			}
			s := c17Sample{t0: t}
			s.t1 = s.t0.Add(d1 + theta + drift)
			s.t2 = s.t1.Add(proc)
			s.t3 = s.t2.Add(d2 - theta - drift)
			if overstated {
				s.t2 = s.t2.Add(time.Duration(tp.Range(0, 2*int64(d1+d2)+2000, "dwell-bias")))
			}
			if distinctRTD && seen[s.rtd()] && try < 50 {
				minDelay++
				continue
			}
			seen[s.rtd()] = true
			out = append(out, s)
			break
		}
	}
	return out
}

// c17Bounds learns the Ntimed filter's delay bounds the way the algorithm it cites does
// (P.-H. Kamp's Ntimed, ntp_filter.c): running averages of the two one-way quantities
// lo = t0-t1 and hi = t3-t2 and of their squares over at most 20 samples, bounds at three
// standard deviations below the average lo and above the average hi, outliers averaged in
// with weight 1/n^2. It is written from that description, not from the repository's filter,
// and only decides the statement's question: does a sample lie within the learned bounds?
type c17Bounds struct {
	n                float64
	alo, ahi, l2, h2 float64
	since            int
	lo0              float64 // the first lo since the reset
	loConst          bool    // every lo since the reset equals lo0 (a noise-free forward path)
}

// observe returns whether the sample lies within the bounds learned so far and whether
// that verdict is clear of floating-point doubt (margin of 2 us to either bound, variance
// terms well conditioned); it then learns the sample.
func (m *c17Bounds) observe(s c17Sample) (inBounds, clear bool) {
	lo := s.t0.Sub(s.t1).Seconds()
	hi := s.t3.Sub(s.t2).Seconds()
	if m.n < 20 {
		m.n++
	}
	m.since++
	if m.since == 1 {
		m.lo0, m.loConst = lo, true
	} else if lo != m.lo0 {
		m.loConst = false
	}
	var nlo, nhi float64
	vlo, vhi := m.l2-m.alo*m.alo, m.h2-m.ahi*m.ahi
	if m.n > 2 {
		nlo, nhi = math.Sqrt(vlo), math.Sqrt(vhi)
	}
	loLim, hiLim := m.alo-3*nlo, m.ahi+3*nhi
	failLo, failHi := lo < loLim, hi > hiLim
	inBounds = !failLo && !failHi
	const margin = 2e-6
	loClear := !math.IsNaN(nlo) && math.Abs(lo-loLim) > margin && (m.n <= 2 || vlo > 1e-12)
	if m.loConst {
		// all forward delays identical: average = the value, variance exactly zero, the lower
		// bound is the value itself - and a sample on the bound lies within the bounds
		failLo, loClear = false, true
		inBounds = !failHi
	}
	clear = loClear && !math.IsNaN(nhi) && math.Abs(hi-hiLim) > margin &&
		math.Abs(m.alo) < 10 && math.Abs(m.ahi) < 10 && (m.n <= 2 || vhi > 1e-12)
	r := m.n
	if m.n > 2 && (failLo || failHi) && (m.n > 3 || (failLo && failHi)) {
		r *= r
	}
	m.alo += (lo - m.alo) / r
	m.ahi += (hi - m.ahi) / r
	m.l2 += (lo*lo - m.l2) / r
	m.h2 += (hi*hi - m.h2) / r
	return
}

// Reference model of the lucky-packet filter, from the statement: median offset of
// the k lowest-round-trip-delay samples among the last N.
func c17LuckyModel(window []c17Sample, pick int) time.Duration {
	w := append([]c17Sample(nil), window...)
	sort.SliceStable(w, func(i, j int) bool { return w[i].rtd() < w[j].rtd() })
	if pick < len(w) {
		w = w[:pick]
	}
	offs := make([]time.Duration, len(w))
	for i, s := range w {
		offs[i] = s.off()
	}
	sort.Slice(offs, func(i, j int) bool { return offs[i] < offs[j] })
	i := len(offs) / 2
	if len(offs)%2 != 0 {
		return offs[i]
	}
	return offs[i-1] + (offs[i]-offs[i-1])/2
}

func c17World(t *testing.T, r *simcore.Run) any {
	activate(r)
	tp := r.Tape
	clk := simclock.New(0, 0, 1e-5)
	simclock.Global.Set(func() *simclock.Clock { return clk })
	base := time.Now().Add(time.Duration(tp.Range(0, int64(36*365*24*time.Hour), "base")))
	which := tp.Intn(3, "which") // 0 lucky, 1 ntimed, 2 lucky unconfigured
	n1 := tp.Intn(40, "n1")
	n2 := 1 + tp.Intn(40, "n2")
	boundary := tp.Intn(3, "boundary") // 0 explicit Reset, 1 epoch change, 2 none (continuous)
	desc := map[string]any{"n_before": n1, "n_after": n2}
	switch which {
	case 0:
		capN := 1 + tp.Intn(64, "cap")
		if tp.Bool(1, 3, "smallcap") {
			capN = 1 + tp.Intn(6, "cap2")
		}
		pick := 1 + tp.Intn(80, "pick")
		if tp.Bool(1, 2, "pickle") {
			pick = 1 + tp.Intn(capN, "pick2")
		}
		desc["filter"], desc["cap"], desc["pick"] = "lucky-packet", capN, pick
		k := pick
		if k > capN {
			k = capN
		}
		f := client.NewLuckyPacketFilter(capN, pick)
		all := c17Gen(tp, n1+n2, base, true)
		var window []c17Sample
		for i, s := range all {
			if i == n1 && boundary != 2 {
				// the lucky-packet filter does not look at the clock epoch; only Reset clears it
				f.Reset()
				window = window[:0]
				r.Probe("reset")
			}
			window = append(window, s)
			if len(window) > capN {
				window = window[1:]
			}
			got := f.Do(s.t0, s.t1, s.t2, s.t3)
			r.Log("lucky %d -> %d", i, got)
			if s.rtd() <= 0 {
				r.Probe("round-trip-delay-not-positive")
			}
			want := c17LuckyModel(window, k)
			if got != want {
				r.Fail("C17", "lucky/selection", "sample %d (window %d, cap %d, pick %d): filter %v, median of the %d lowest-delay samples %v",
					i, len(window), capN, pick, got, k, want)
				break
			}
			if len(window) == capN {
				r.Probe("window-full")
			}
			if k < len(window) {
				r.Probe("picked-subset")
			}
		}
		r.Count("samples", int64(len(all)))
	case 2:
		desc["filter"] = "lucky-packet (unconfigured)"
		var f client.LuckyPacketFilter
		for i, s := range c17Gen(tp, n1+n2, base, false) {
			if got := f.Do(s.t0, s.t1, s.t2, s.t3); got != s.off() {
				r.Fail("C17", "lucky/unconfigured", "sample %d: unconfigured filter returned %v, raw offset %v", i, got, s.off())
				break
			}
			r.Probe("unconfigured")
		}
		r.Count("samples", int64(n1+n2))
	default:
		desc["filter"], desc["boundary"] = "ntimed", []string{"Reset()", "clock epoch change", "none"}[boundary]
		var f measurements.Filter = client.NewNtimedFilter(nil)
		h1 := c17Gen(tp, n1, base, false)
		var last time.Time = base
		if n1 > 0 {
			last = h1[n1-1].t3
		}
		h2 := c17Gen(tp, n2, last, false)
		rawTol := func(s c17Sample) float64 {
			m := math.Max(math.Abs(s.t0.Sub(s.t1).Seconds()), math.Abs(s.t3.Sub(s.t2).Seconds()))
			return 4 + m*1e9*1e-15*8
		}
		since := 0
		bounds := &c17Bounds{}
		feed := func(idx int, s c17Sample, fresh measurements.Filter) bool {
			got := f.Do(s.t0, s.t1, s.t2, s.t3)
			r.Log("ntimed %d -> %d", idx, got)
			since++
			if in, clear := bounds.observe(s); in && clear {
				if d := math.Abs(float64(got - s.off())); d > rawTol(s) {
					r.Fail("C17", "ntimed/raw-within-bounds", "sample %d (%d since reset) lies within the learned delay bounds: filter %v, raw offset %v", idx, since, got, s.off())
					return false
				}
				if since > 3 {
					r.Probe("raw-within-bounds")
					if bounds.loConst {
						r.Probe("sample-exactly-on-lower-bound")
					}
				}
			} else if !in && clear && since > 3 {
				r.Probe("outside-bounds")
			}
			if since <= 3 {
				if d := math.Abs(float64(got - s.off())); d > rawTol(s) {
					r.Fail("C17", "ntimed/raw-first-three", "sample %d (%d since reset): filter %v, raw offset %v", idx, since, got, s.off())
					return false
				}
				r.Probe("raw-early")
			}
			if fresh != nil {
				want := fresh.Do(s.t0, s.t1, s.t2, s.t3)
				if got != want {
					r.Fail("C17", "ntimed/history-dependence", "sample %d after the reset: filter %v, a fresh filter fed the same samples %v", idx, got, want)
					return false
				}
				r.Probe("fresh-equal")
			}
			return true
		}
		ok := true
		for i, s := range h1 {
			if ok = feed(i, s, nil); !ok {
				break
			}
		}
		if ok {
			var fresh measurements.Filter
			switch boundary {
			case 0:
				f.Reset()
				since = 0
				bounds = &c17Bounds{}
				fresh = client.NewNtimedFilter(nil)
				r.Probe("reset")
			case 1:
				clk.StepBy(time.Duration(tp.Range(1, int64(time.Second), "stepby")))
				since = 0
				bounds = &c17Bounds{}
				fresh = client.NewNtimedFilter(nil)
				r.Probe("epoch-change")
				r.Fault("clock-step")
			}
			for i, s := range h2 {
				if !feed(n1+i, s, fresh) {
					break
				}
			}
		}
		r.Count("samples", int64(n1+n2))
	}
	r.SetVT()
	r.Log("done %v", desc)
	return desc
}

func init() {
	simcore.Registry["C17"] = &simcore.Spec{
		World:      c17World,
		NonTrivial: func(r *simcore.Run) bool { return r.Counts["samples"] >= 2 },
	}
}

var _ = fmt.Sprintf
