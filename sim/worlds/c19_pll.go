//go:build go1.25

package worlds

import (
	"fmt"
	"math"
	"testing"
	"time"

	"example.com/scion-time/base/timebase"
	"example.com/scion-time/core/sync/adjustments"
	"example.com/scion-time/driver/clocks"

	"verif.local/sim/simclock"
	"verif.local/sim/simcore"
	"verif.local/sim/simkern"
)

// c19Rec passes everything through to the real system clock driver and records the
// Step and Adjust calls the discipline makes.
type c19Rec struct {
	timebase.SystemClock
	onStep   func(d time.Duration)
	onAdjust func(o, d time.Duration, f float64)
}

func (c *c19Rec) Step(d time.Duration) { c.onStep(d); c.SystemClock.Step(d) }
func (c *c19Rec) Adjust(o, d time.Duration, f float64) {
	c.onAdjust(o, d, f)
	c.SystemClock.Adjust(o, d, f)
}

// W-pll: the real Pll on a simulated SystemClock that records Step and Adjust,
// bumps its epoch on Step, and is additionally stepped from outside at
// tape-chosen points. Constants (2 s, weight 3, 1 ms, 500 ppm) are the
// statement's.

// c19Slew is the last Adjust the discipline made, and what the kernel's frequency correction
// has to be as a consequence.
type c19Slew struct {
	valid        bool
	at           time.Time // virtual instant of the call
	off, dur     time.Duration
	freq         float64
	steppedSince bool
}

func (s *c19Slew) check(kernPPB int64) string {
	if !s.valid {
		return ""
	}
	d := s.dur / time.Second * time.Second
	if d == 0 {
		d = time.Second
	}
	el := time.Since(s.at)
	want := s.freq
	phase := "after the slew"
	switch {
	case s.steppedSince:
		phase = "after a step"
	case float64(el) < 0.98*float64(d):
		want, phase = s.freq+s.off.Seconds()/d.Seconds(), "during the slew"
	case float64(el) <= 1.02*float64(d):
		return "" // the slew ends about now (the timer runs on the clock that is being slewed)
	}
	ppb := want * 1e9
	if ppb > 500000 {
		ppb = 500000 // the kernel's limit
	}
	if ppb < -500000 {
		ppb = -500000
	}
	if diff := math.Abs(float64(kernPPB) - ppb); diff > 2+math.Abs(ppb)*1e-6 {
		return fmt.Sprintf("%s of Adjust(%v, %v, %g) %v ago the kernel's frequency correction is %d ppb, it has to be %.1f ppb", phase, s.off, s.dur, s.freq, el, kernPPB, ppb)
	}
	return ""
}

type c19Call struct {
	kind     string // "step" | "adjust"
	off, dur time.Duration
	freq     float64
	update   int
}

func c19World(t *testing.T, r *simcore.Run) any {
	activate(r)
	tp := r.Tape
	clk := simclock.New(time.Duration(tp.Range(0, int64(40*365*24*time.Hour), "clock0")), 0, 1e-5)
	var calls []c19Call
	upd := 0
	clk.OnStep = func(d time.Duration) { calls = append(calls, c19Call{kind: "step", off: d, update: upd}) }
	clk.OnAdjust = func(o, d time.Duration, f float64) {
		calls = append(calls, c19Call{kind: "adjust", off: o, dur: d, freq: f, update: upd})
	}
	// In a third of the runs the discipline drives the repository's real system clock driver
	// (driver/clocks) on a simulated kernel (clock_gettime / clock_adjtime / timerfd): epoch,
	// clock readings and the goroutine that ends a slew are then the driver's own.
	realDriver := tp.Bool(1, 3, "realdriver")
	var slew c19Slew // the slew the discipline asked for last (real-driver runs)
	var sys timebase.SystemClock = clk
	var kern *simkern.KClock
	if realDriver {
		kern = simkern.New(r, nil, clk, tp.Range(0, 100000, "hwppb")-50000)
		simkern.Current = kern
		sys = &c19Rec{SystemClock: clocks.NewSystemClock(quietLog(), 10*time.Microsecond),
			onStep: func(d time.Duration) {
				calls = append(calls, c19Call{kind: "step", off: d, update: upd})
				slew.steppedSince = true
			},
			onAdjust: func(o, d time.Duration, f float64) {
				calls = append(calls, c19Call{kind: "adjust", off: o, dur: d, freq: f, update: upd})
				slew = c19Slew{valid: true, at: time.Now(), off: o, dur: d, freq: f}
			}}
		r.Probe("real-clock-driver")
	}
	pll := adjustments.NewPLL(quietLog(), sys)

	n := 5 + tp.Intn(60, "updates")
	gapKinds := []time.Duration{0, 1, time.Millisecond, 999 * time.Millisecond, time.Second, time.Second + 1,
		2 * time.Second, 2*time.Second + 1, 3 * time.Second, 6 * time.Second, 6*time.Second + 1, 16 * time.Second, 64 * time.Second, 301 * time.Second, 600 * time.Second,
		// outages: hours to weeks without an update (the gain decay 0.999^dt reaches zero after some eight days)
		6 * time.Hour, 9 * 24 * time.Hour, 30 * 24 * time.Hour}
	regime := tp.Intn(4, "regime") // 0 mixed, 1 steady 1s, 2 bursts at one reading, 3 sparse

	// model state
	type mstate struct {
		epochStart time.Time // first update of the current epoch
		have       bool
		decided    bool // the initial-step decision of this epoch has been taken
		lastUpdate time.Time
		haveLast   bool
		epoch      uint64
	}
	var m mstate
	steps, adjusts, extSteps, restarts := 0, 0, 0, 0
	var hist []string
	body := func(sleep func(k int, d time.Duration) bool) {
		for k := 0; k < n && r.Violation() == nil; k++ {
			upd = k
			var gap time.Duration
			switch regime {
			case 1:
				gap = time.Second
			case 2:
				gap = []time.Duration{0, 0, 0, time.Second, 3 * time.Second}[tp.Intn(5, "gapb")]
			case 3:
				gap = gapKinds[8+tp.Intn(len(gapKinds)-8, "gaps")]
			default:
				gap = gapKinds[tp.Intn(len(gapKinds), "gap")]
				if tp.Bool(1, 5, "gapj") {
					gap += time.Duration(tp.Range(0, int64(time.Second), "gapjj"))
				}
			}
			if !sleep(k, gap) {
				return
			}
			if tp.Bool(1, 15, "extstep") {
				// someone else steps the clock (forward): new epoch
				by := time.Duration(tp.Range(0, int64(10*time.Second), "extby"))
				if realDriver {
					sys.(*c19Rec).SystemClock.Step(by) // another user of the same driver object
					slew.steppedSince = true
				} else {
					clk.StepBy(by)
				}
				extSteps++
				r.Fault("external-clock-step")
			}
			var off time.Duration
			switch tp.Intn(10, "offk") {
			case 0:
				off = 0
			case 1:
				off = time.Millisecond
			case 2:
				off = time.Millisecond + 1
			case 3:
				off = time.Duration(tp.Range(0, int64(2*time.Millisecond), "offs"))
			case 4:
				off = time.Duration(tp.Range(0, int64(time.Second), "offm"))
			case 5:
				off = math.MaxInt64
				if realDriver {
					off = time.Duration(math.MaxInt32) * time.Second / 4 // the kernel refuses offsets beyond its range
				}
			case 6:
				off = time.Duration(tp.Range(0, math.MaxInt64-1, "offh"))
				if realDriver {
					off %= time.Duration(math.MaxInt32) * time.Second / 4
				}
			default:
				off = time.Duration(tp.Range(0, int64(300*time.Microsecond), "offt"))
			}
			if tp.Bool(1, 2, "neg") {
				off = -off
			}
			if !realDriver && tp.Bool(1, 40, "most-negative") {
				off = math.MinInt64 // has no negation: the correction keeps its direction all the same
				r.Probe("most-negative-offset")
			}
			weight := []float64{0, 1, 3, 3.0000001, 4, 49, 50, 100, 149, 150, 1000, 1e6, 150, 1000,
				math.NaN(), math.Inf(1), math.Inf(-1), -1, math.MaxFloat64, math.SmallestNonzeroFloat64}[tp.Intn(20, "w")]
			if weight != weight || math.IsInf(weight, 0) {
				r.Probe("weight-not-finite")
			}
			if gap >= 6*time.Hour {
				r.Probe("outage-hours-to-weeks")
			}

			if realDriver {
				// sane actuation, seen at the kernel: while a slew is in progress the frequency in force
				// is the one asked for plus offset/duration; once its duration has passed, or the clock
				// was stepped meanwhile, it is the frequency the discipline asked for - nothing else
				if why := slew.check(kern.AdjPPB); why != "" {
					r.Fail("C19", "driver/frequency-in-force", "update %d: %s", k, why)
					return
				}
			}
			now := sys.Now()
			if ep := sys.Epoch(); !m.have || ep != m.epoch {
				if m.have {
					restarts++
					r.Probe("epoch-restart")
				}
				m = mstate{epochStart: now, have: true, epoch: ep}
			}
			before := len(calls)
			pll.Do(off, weight)
			sinceStart := now.Sub(m.epochStart)
			var dtWhole float64
			if m.haveLast {
				dtWhole = math.Ceil(now.Sub(m.lastUpdate).Seconds())
			}
			for _, c := range calls[before:] {
				switch c.kind {
				case "step":
					steps++
					ok := !m.decided && sinceStart > 2*time.Second && weight > 3 && (off > time.Millisecond || off < -time.Millisecond)
					if !ok {
						r.Fail("C19", "step/not-allowed", "update %d: Step(%v) with %v since the epoch's first update, weight %v, offset %v, initial step already decided: %v",
							k, c.off, sinceStart, weight, off, m.decided)
					} else if c.off != off && !(off == math.MinInt64 && c.off == math.MinInt64+1) {
						// (the one value without a negation is stepped by its neighbour)
						r.Fail("C19", "step/amount", "update %d: Step(%v) for measured offset %v", k, c.off, off)
					}
					r.Probe("step")
				case "adjust":
					adjusts++
					if c.dur <= 0 {
						r.Fail("C19", "adjust/duration", "update %d: Adjust with duration %v", k, c.dur)
					} else if math.IsNaN(c.freq) || math.IsInf(c.freq, 0) {
						r.Fail("C19", "adjust/frequency", "update %d: Adjust with frequency %v", k, c.freq)
					} else if lim := 500e-6 * dtWhole * 1e9; math.Abs(float64(c.off)) > lim+1 {
						r.Fail("C19", "adjust/slew-bound", "update %d: Adjust(%v over %v): more than 500 ppm of the %v whole second(s) elapsed since the previous update",
							k, c.off, c.dur, dtWhole)
					}
					if c.off != 0 {
						r.Probe("adjust-nonzero")
					}
					r.Probe("adjust")
				}
			}
			// the waiting phase of this epoch ends with the first update that satisfies the
			// time and weight conditions (with or without a step)
			if !m.decided && sinceStart > 2*time.Second && weight > 3 {
				m.decided = true
				r.Probe("initial-step-decision")
			}
			m.lastUpdate, m.haveLast = now, true
			if len(hist) < 14 {
				hist = append(hist, fmt.Sprintf("+%v off=%v w=%v -> %d call(s)", gap, off, weight, len(calls)-before))
			}
			r.Log("upd %d gap=%d off=%d w=%v calls=%d", k, gap, off, weight, len(calls)-before)
		}
	}
	if realDriver {
		go func() {
			simcore.SetTag("driver")
			defer r.Finish()
			defer func() {
				if p := recover(); p != nil {
					st := string(debugStack())
					r.Fail("panic", simcore.SiteFromStack(st)+":"+simcore.PanicClass(p), "%v\n%s", p, st)
				}
			}()
			body(func(k int, d time.Duration) bool { return !r.Sleep(fmt.Sprintf("gap:%d", k), nil, d).Killed })
		}()
		if reason := r.Loop(2_000_000, 0); reason != "" && r.Violation() == nil {
			r.Fail("harness", "c19/"+reason, "scheduler stopped: %s pending=%v", reason, r.IdlePending)
		}
		r.SetVT()
		r.Drain()
		simkern.Current = nil
		r.Count("kernel-frequency-settings", int64(len(kern.Freqs)))
		if len(kern.Freqs) > 0 {
			r.Probe("kernel-frequency-set")
		}
		if len(kern.Offsets) > 0 {
			r.Probe("kernel-clock-stepped")
		}
		if len(kern.Freqs) > adjusts {
			r.Probe("slew-ended-by-driver")
		}
	} else {
		body(func(k int, d time.Duration) bool { time.Sleep(d); return true })
	}
	r.SetVT()
	r.Count("updates", int64(n))
	return map[string]any{"updates": n, "regime": regime, "steps": steps, "adjusts": adjusts, "external_steps": extSteps,
		"restarts": restarts, "history_prefix": hist}
}

func init() {
	simcore.Registry["C19"] = &simcore.Spec{
		World:      c19World,
		NonTrivial: func(r *simcore.Run) bool { return r.Probes["adjust"] > 0 || r.Probes["step"] > 0 },
	}
}
