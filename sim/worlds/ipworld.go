//go:build go1.25

package worlds

import (
	"context"
	"fmt"
	"net"
	"net/netip"
	"runtime/debug"
	"time"

	"example.com/scion-time/core/client"
	"example.com/scion-time/core/measurements"
	"example.com/scion-time/core/server"
	"example.com/scion-time/net/ntp"
	"example.com/scion-time/net/ntske"

	"verif.local/sim/simclock"
	"verif.local/sim/simcore"
	"verif.local/sim/simnet"
	"verif.local/sim/simsync"
)

// ipWorld is the shared set-up of the worlds that run the real IP listeners
// (runIPServer x N on one SO_REUSEPORT group, sharing the real timestamp store)
// against the real IP client and/or scripted peers on the simulated network.
type ipWorld struct {
	r   *simcore.Run
	net *simnet.Net

	srv, cli, atk *simnet.Host
	srvAddr       netip.AddrPort
	listeners     []*simnet.UDPConn
	provider      *ntske.Provider

	// wire log
	sent      map[uint64]*simnet.Datagram // every datagram by id
	delivered map[uint64]*simnet.Datagram

	// panicSfx classifies a panic of goroutine tag at site (known-finding preconditions)
	panicSfx func(tag, site string) string
}

// Host addresses of the IP worlds; a world may ask for IPv6 hosts by calling ipDrawFamily
// before newIPWorld / newNTSWorld (runs execute one after the other in a worker process).
var (
	ipSrvIP  = "10.0.0.1"
	ipCliIP  = "10.0.0.2"
	ipAtkIP  = "10.0.0.66"
	ipV6Next = false
)

const ipPort = 123

func ipUseFamily(v6 bool) {
	if v6 {
		ipSrvIP, ipCliIP, ipAtkIP = "fd00:1::1", "fd00:1::2", "fd00:1::66"
	} else {
		ipSrvIP, ipCliIP, ipAtkIP = "10.0.0.1", "10.0.0.2", "10.0.0.66"
	}
}

// ipDrawFamily lets the run's tape decide the address family of the next IP world.
func ipDrawFamily(r *simcore.Run) {
	ipV6Next = r.Tape.Bool(1, 4, "ipv6")
	if ipV6Next {
		r.Probe("ipv6-hosts")
	}
}

func newIPWorld(r *simcore.Run, srvOffset time.Duration, srvSkewPPB int64) *ipWorld {
	activate(r)
	resetProm()
	server.VerifResetTSS()
	ipUseFamily(ipV6Next)
	ipV6Next = false
	w := &ipWorld{r: r, net: simnet.New(r), sent: map[uint64]*simnet.Datagram{}, delivered: map[uint64]*simnet.Datagram{}}
	w.srv = w.net.AddHost("srv", simclock.New(srvOffset, srvSkewPPB, 1e-5), ipSrvIP)
	w.cli = w.net.AddHost("cli", simclock.New(0, 0, 1e-5), ipCliIP) // the client's clock is the clock its deadlines use
	w.atk = w.net.AddHost("atk", simclock.New(0, 0, 1e-5), ipAtkIP)
	r.TimerNode = w.cli.Node
	simclock.Global.Set(func() *simclock.Clock {
		n := r.Current()
		if n == nil {
			return w.cli.Clock
		}
		return n.Clock.(*simclock.Clock)
	})
	w.srvAddr = netip.AddrPortFrom(netip.MustParseAddr(ipSrvIP), ipPort)
	return w
}

// goSafe runs f on a new goroutine of node n with tag; a panic inside the code
// under test becomes a violation with the innermost repository frame as its site.
func (w *ipWorld) goSafe(tag string, f func()) {
	go func() {
		simcore.SetTag(tag)
		defer func() {
			if p := recover(); p != nil {
				st := string(debug.Stack())
				site := simcore.SiteFromStack(st) + ":" + simcore.PanicClass(p)
				if w.panicSfx != nil {
					site += w.panicSfx(tag, site)
				}
				w.r.Fail("panic", site, "goroutine %s: %v\n%s", tag, p, st)
			}
		}()
		f()
	}()
}

// startListeners binds n sockets to the server port with SO_REUSEPORT and runs
// the real runIPServer on each.
func (w *ipWorld) startListeners(n int, provider *ntske.Provider) {
	w.provider = provider
	if n >= 2 && w.r.Tape.Bool(1, 4, "real-start") {
		// the service's own start-up: StartIPServer binds its eight sockets and starts the loops
		w.net.Setup = true
		server.StartIPServer(context.Background(), quietLog(), &net.UDPAddr{IP: net.ParseIP(w.srvAddr.Addr().String()), Port: int(w.srvAddr.Port())}, 0, provider)
		w.net.Setup = false
		w.r.Probe("listeners-started-by-the-service")
		return
	}
	m := server.VerifNewIPServerMetrics()
	for i := 0; i < n; i++ {
		c, err := w.net.Listen(w.srvAddr.String(), true)
		if err != nil {
			panic(err)
		}
		w.listeners = append(w.listeners, c)
		conn := c
		w.goSafe(fmt.Sprintf("L%d", i), func() {
			server.VerifRunIPServer(context.Background(), quietLog(), m, conn, "", 0, provider)
		})
	}
}

func (w *ipWorld) observe() {
	w.net.OnSend = func(d *simnet.Datagram) { w.sent[d.ID] = d }
	w.net.OnDeliver = func(d *simnet.Datagram) { w.delivered[d.ID] = d }
}

func udpAddr(ip string, port int) *net.UDPAddr {
	return &net.UDPAddr{IP: net.ParseIP(ip), Port: port}
}

// measureIP performs one MeasureClockOffsetIP call with a virtual deadline.
func (w *ipWorld) measureIP(c *client.IPClient, timeout time.Duration) (time.Time, time.Duration, error) {
	ctx, cancel := simsync.WithTimeout(context.Background(), timeout)
	defer cancel()
	return client.MeasureClockOffsetIP(ctx, quietLog(), c, udpAddr(ipCliIP, 0), udpAddr(ipSrvIP, ipPort))
}

// measureIPTo is measureIP with a caller-owned remote address (the production reference clock
// keeps one such object for its lifetime; the client rewrites it from the key exchange's data).
func (w *ipWorld) measureIPTo(c *client.IPClient, remote *net.UDPAddr, timeout time.Duration) (time.Time, time.Duration, error) {
	ctx, cancel := simsync.WithTimeout(context.Background(), timeout)
	defer cancel()
	return client.MeasureClockOffsetIP(ctx, quietLog(), c, udpAddr(ipCliIP, 0), remote)
}

// recFilter records the four timestamps the client combines and returns the raw offset.
type recFilter struct {
	calls  [][4]time.Time
	outs   []time.Duration // what Do returned, call by call
	resets int
	inner  measurements.Filter // if set: the wired filter this one records for and passes through to
}

func (f *recFilter) Do(t0, t1, t2, t3 time.Time) time.Duration {
	f.calls = append(f.calls, [4]time.Time{t0, t1, t2, t3})
	out := ntp.ClockOffset(t0, t1, t2, t3)
	if f.inner != nil {
		out = f.inner.Do(t0, t1, t2, t3)
	}
	f.outs = append(f.outs, out)
	return out
}
func (f *recFilter) Reset() {
	f.resets++
	if f.inner != nil {
		f.inner.Reset()
	}
}

func decodeNTP(b []byte) (ntp.Packet, bool) {
	var p ntp.Packet
	if err := ntp.DecodePacket(&p, b); err != nil {
		return p, false
	}
	return p, true
}

func absDur(d time.Duration) time.Duration {
	if d < 0 {
		return -d
	}
	return d
}
