//go:build go1.25

package worlds

import (
	"bytes"
	"context"
	"crypto/tls"
	"crypto/x509"
	"fmt"
	"net"
	"net/netip"
	"testing"
	"time"

	"github.com/google/gopacket"
	"github.com/scionproto/scion/pkg/addr"
	"github.com/scionproto/scion/pkg/drkey"
	"github.com/scionproto/scion/pkg/slayers"
	"github.com/scionproto/scion/pkg/snet"
	"github.com/scionproto/scion/pkg/spao"

	"example.com/scion-time/core/client"
	"example.com/scion-time/core/server"
	"example.com/scion-time/net/ntp"
	"example.com/scion-time/net/ntske"
	"example.com/scion-time/net/scion"

	"verif.local/sim/simcore"
	"verif.local/sim/simnet"
	"verif.local/sim/simsync"
)

// W-ntp-scion for C13: real SCIONClient (packet authentication on or off) and
// real runSCIONServer listeners (DRKey fetcher over the mock daemon, or none),
// relay router in between that records, tampers and injects: bit flips in MAC,
// SPI, algorithm, covered and uncovered bytes; SCMP echo / traceroute requests;
// packets for other L4 ports on the service port and on the end-host port.

// macVerdict recomputes the authenticator of a SCION/UDP packet as received.
// present: the packet carries an authenticator option with the given SPI and the
// time service's algorithm; valid: its MAC equals the recomputed one.
// scionL4Offset walks the SCION common header and the hop-by-hop / end-to-end extension
// headers of an encoded packet by their length fields and returns where the upper-layer
// header starts (-1 when the lengths do not fit the packet).
func scionL4Offset(raw []byte) int {
	if len(raw) < 12 {
		return -1
	}
	next, off := raw[4], int(raw[5])*4
	for next == 200 || next == 201 {
		if off+2 > len(raw) {
			return -1
		}
		next, off = raw[off], off+(int(raw[off+1])+1)*4
	}
	if off > len(raw) {
		return -1
	}
	return off
}

func macVerdict(raw []byte, keyOf func(p *scionPkt) []byte, wantSPI uint32) (present, valid bool) {
	p := parseSCION(raw)
	if !p.ok || !p.isUDP || !p.hasE2E {
		return false, false
	}
	key := keyOf(p)
	opt, err := p.e2e.FindOption(slayers.OptTypeAuthenticator)
	if err != nil || len(opt.OptData) != scion.PacketAuthOptDataLen {
		return false, false
	}
	// (the option's metadata read here, not with the repository's accessor: security parameter
	// index in bytes 0..3, algorithm in byte 4, then timestamp and sequence number)
	spi := uint32(opt.OptData[0])<<24 | uint32(opt.OptData[1])<<16 | uint32(opt.OptData[2])<<8 | uint32(opt.OptData[3])
	algo := opt.OptData[4]
	if spi != wantSPI || algo != scion.PacketAuthAlgorithm {
		return false, false
	}
	// what is authenticated is the upper-layer datagram that stands in the packet: the UDP
	// header the extension headers lead to and everything behind it (not "the last
	// UDP-length bytes", which need not be the bytes a receiver goes on to decode)
	off := scionL4Offset(raw)
	if off < 0 {
		return true, false
	}
	l4 := len(raw) - off
	if l4 < 8 || int(p.udp.Length) != l4 {
		return true, false
	}
	aux := make([]byte, spao.MACBufferSize)
	out := make([]byte, scion.PacketAuthMACLen)
	_, err = spao.ComputeAuthCMAC(spao.MACInput{Key: key, Header: slayers.PacketAuthOption{EndToEndOption: opt},
		ScionLayer: &p.scn, PldType: slayers.L4UDP, Pld: raw[len(raw)-l4:]}, aux, out)
	if err != nil {
		return true, false
	}
	return true, bytes.Equal(out, scion.PacketAuthOptMAC(opt))
}

func c13World(t *testing.T, r *simcore.Run) any {
	tp := r.Tape
	// address family of the SCION hosts (and of their underlay): IPv4, or IPv6 in a third of the runs
	scV6Next = tp.Bool(1, 3, "ipv6")
	if scV6Next {
		r.Probe("ipv6-hosts")
	}
	w := newSCIONWorld(r, time.Duration(tp.Range(0, int64(2*time.Second), "srvoff")), 1)
	w.net.OnSend = nil
	if tp.Bool(1, 4, "to-endhost-port") {
		w.toEndhostPort = true
		r.Probe("requests-delivered-to-the-endhost-port")
	}
	// DRKey epochs (keys change every few virtual seconds in some runs) and an unavailable
	// daemon on the server side (a fault the driver switches on for single measurements)
	w.dc.epochLen = []time.Duration{0, 0, 3 * time.Second, 11 * time.Second}[tp.Intn(4, "epochlen")]
	daemonFaults := tp.Bool(1, 3, "daemonfaults")
	srvAuth := tp.Bool(2, 3, "srvauth")
	cliAuth := tp.Bool(2, 3, "cliauth")
	srvDSCP := uint8([]int{0, 0, 10, 46, 63}[tp.Intn(5, "sdscp")])
	cliDSCP := uint8([]int{0, 0, 10, 46, 1}[tp.Intn(5, "cdscp")])
	forwarder := tp.Bool(1, 3, "forwarder")
	if forwarder && tp.Bool(1, 2, "fwd-rxmiss") {
		// the forwarder's kernel receive timestamp goes missing now and then: it then has no
		// timestamp option to add, and relays the packet - extensions and all - as it came
		fwdPlan := w.net.Plan
		fwdPlan.RxStampMissing = uint64(100 + tp.Intn(500, "fwd-rxmiss-rate"))
		w.net.PlanFor = func(d *simnet.Datagram, at *simnet.UDPConn) *simnet.FaultPlan {
			if at != nil && at.Host() == w.cli && at.Local().Port() == scEndhost {
				return &fwdPlan
			}
			return nil
		}
	}
	// a quarter of the runs carry NTS on top (the unusual but legal combination of NTS with
	// SCION packet authentication): the packet authenticator's clauses hold regardless
	useNTS := tp.Bool(1, 4, "nts")
	var prov *ntske.Provider
	var kePool *x509.CertPool
	if useNTS {
		prov = ntske.NewProvider()
		w.net.TLSClientHost = w.cli
		w.net.Names = map[string]netip.Addr{keHost: netip.MustParseAddr(scSrvIP)}
		cert, pool := mkCert([]string{keHost}, []string{scSrvIP})
		kePool = pool
		lst, err := w.net.ListenStream(hp(scSrvIP, kePort), &tls.Config{Certificates: []tls.Certificate{cert}, MinVersion: tls.VersionTLS13, NextProtos: []string{keALPN}})
		if err != nil {
			panic(err)
		}
		w.goSafe("ke-accept", func() {
			server.VerifRunNTSKEServerTLS(context.Background(), quietLog(), lst, scSvcPort, prov)
		})
		r.Probe("nts-with-packet-authentication")
	}
	w.startServers(2, srvAuth, srvDSCP, prov, forwarder)
	// path shape
	var segLens []int
	switch tp.Intn(5, "pathkind") {
	case 0:
		segLens = nil // empty path
	case 1:
		segLens = []int{2 + tp.Intn(6, "h1")}
	case 2:
		segLens = []int{2 + tp.Intn(6, "h1"), 2 + tp.Intn(6, "h2")}
	default:
		segLens = []int{2 + tp.Intn(5, "h1"), 2 + tp.Intn(5, "h2"), 2 + tp.Intn(6, "h3")}
	}
	path := w.mkPath(0, segLens, 1, scCliIA, scSrvIA)
	laddr, raddr := w.udpAddrs()
	// the host-to-host key of a packet is determined by the server-side and client-side
	// SCION addresses it carries (whichever direction it travels)
	// (and, when keys have epochs, by the instant the verifying side names: the server its
	// receive timestamp, the client the time it took before building the request)
	keyAt := func(at time.Time) func(p *scionPkt) []byte {
		return func(p *scionPkt) []byte {
			src, _ := netip.AddrFromSlice(p.scn.RawSrcAddr)
			dst, _ := netip.AddrFromSlice(p.scn.RawDstAddr)
			if p.scn.DstIA == scSrvIA {
				return hostHostKeyFrom(w.dc.hostASAt(scion.DRKeyProtocolTS, p.scn.DstIA, p.scn.SrcIA, dst.Unmap().String(), at).Key, src.Unmap().String())
			}
			return hostHostKeyFrom(w.dc.hostASAt(scion.DRKeyProtocolTS, p.scn.SrcIA, p.scn.DstIA, src.Unmap().String(), at).Key, dst.Unmap().String())
		}
	}
	keyOf := func(p *scionPkt) []byte { return keyAt(w.srv.Clock.At(time.Now()))(p) }
	cl := &client.SCIONClient{Log: quietLog(), DSCP: cliDSCP, InterleavedMode: tp.Bool(1, 3, "interleaved")}
	if cliAuth {
		cl.Auth.Enabled = true
		cl.Auth.DRKeyFetcher = scion.NewFetcher(w.dc)
	}
	if useNTS {
		cl.Auth.NTSEnabled = true
		cl.Auth.NTSKEFetcher.TLSConfig = tls.Config{NextProtos: []string{keALPN}, ServerName: keHost, MinVersion: tls.VersionTLS13, RootCAs: kePool}
		cl.Auth.NTSKEFetcher.Port = fmt.Sprint(kePort)
		cl.Auth.NTSKEFetcher.Log = quietLog()
	}
	filter := &recFilter{}
	cl.Filter = filter

	// sinks for forwarded packets
	const otherPort = 40555
	sink, err := w.net.Listen(hp(scSrvIP, otherPort), false)
	if err != nil {
		panic(err)
	}
	forwardedTo := map[uint16][]*simnet.Datagram{}
	reqByID := map[uint64]*scionPkt{} // datagram id (as delivered to the server) -> packet
	w.net.OnDeliver = func(d *simnet.Datagram) {}
	tamperRate := uint64(0)
	if tp.Bool(2, 3, "tamper") {
		tamperRate = uint64(100 + tp.Intn(500, "tamperrate"))
	}
	tampered := map[uint64]string{}
	repliesByCause := map[uint64]int{}
	fwdToRouter := 0 // datagrams the client side's forwarder sent back towards the router
	throwaway := ntske.NewProvider()
	oddAuth := map[uint64]bool{} // crafted requests with an authenticator option of odd length
	nreplies, nverified, nrejected := 0, 0, 0
	// ---- the router: record, tamper
	w.onRouter = func(p *scionPkt) (bool, []byte) {
		raw := p.d.Payload
		if tamperRate == 0 || !p.isUDP || !tp.Bool(tamperRate, 1000, "tamper?") {
			return false, nil
		}
		mut := append([]byte(nil), raw...)
		kind := ""
		spiPat := []byte{0x00, 0x03, 0x00, 0x7b}
		if !p.toSrv {
			spiPat = []byte{0x00, 0x02, 0x00, 0x7b}
		}
		at := bytes.Index(mut, spiPat)
		switch tp.Intn(13, "tkind") {
		case 12: // a forged UDP datagram (same ports, same length, other timestamps) put in front of the genuine one
			off := scionL4Offset(raw)
			if at < 0 || off < 0 || int(p.udp.Length) != len(raw)-off || len(p.udp.Payload) < 48 {
				return false, nil
			}
			kind = "forged-datagram-in-front-of-the-genuine-one"
			r.Probe("forged-datagram-in-front-of-the-genuine-one")
			forged := append([]byte(nil), raw[off:]...)
			forged[8+32+3] ^= 0x20 // NTP receive timestamp: 32 s
			forged[8+40+3] ^= 0x20 // NTP transmit timestamp
			mut = append(append(append([]byte(nil), raw[:off]...), forged...), raw[off:]...)
			pl := int(mut[6])<<8 | int(mut[7])
			pl += len(forged)
			mut[6], mut[7] = byte(pl>>8), byte(pl)
		case 11: // the authenticated timestamp / sequence number bytes that follow the algorithm byte
			if at < 0 {
				return false, nil
			}
			kind = "metadata-byte"
			mut[at+5+tp.Intn(7, "mdb")] ^= 1 << tp.Intn(8, "bit")
		case 9: // re-sealed under the key that follows from an all-zero first-level key
			if at < 0 || !p.toSrv {
				return false, nil
			}
			kind = "remac-under-zero-first-level-key"
			src, _ := netip.AddrFromSlice(p.scn.RawSrcAddr)
			if rb := c13Rebuild(p, "", hostHostKeyFrom(drkey.Key{}, src.Unmap().String()), scion.PacketAuthSPIClient, false, false); rb != nil {
				mut = rb
			} else {
				return false, nil
			}
		case 10: // re-sealed under the previous epoch's key
			if at < 0 || !p.toSrv || w.dc.epochLen == 0 {
				return false, nil
			}
			kind = "remac-under-previous-epoch-key"
			src, _ := netip.AddrFromSlice(p.scn.RawSrcAddr)
			dst, _ := netip.AddrFromSlice(p.scn.RawDstAddr)
			old := w.dc.hostASAt(scion.DRKeyProtocolTS, p.scn.DstIA, p.scn.SrcIA, dst.Unmap().String(), time.Now().Add(-w.dc.epochLen))
			if rb := c13Rebuild(p, "", hostHostKeyFrom(old.Key, src.Unmap().String()), scion.PacketAuthSPIClient, false, false); rb != nil {
				mut = rb
			} else {
				return false, nil
			}
		case 7: // a hop-by-hop extension in front of the end-to-end extension, MAC damaged
			if at < 0 {
				return false, nil
			}
			kind = "hbh-inserted+mac-bit"
			if rb := c13Rebuild(p, "", nil, 0, true, true); rb != nil {
				mut = rb
			} else {
				return false, nil
			}
		case 8: // the request re-addressed to another host of the server's AS, sealed under the original host's key
			if at < 0 || !p.toSrv {
				return false, nil
			}
			kind = "readdressed-under-other-hosts-key"
			if rb := c13Rebuild(p, scOtherIP, keyOf(p), scion.PacketAuthSPIClient, false, false); rb != nil {
				mut = rb
			} else {
				return false, nil
			}
		case 0:
			if at < 0 {
				return false, nil
			}
			kind = "mac-bit"
			mut[at+12+tp.Intn(16, "macb")] ^= 1 << tp.Intn(8, "bit")
		case 1:
			if at < 0 {
				return false, nil
			}
			kind = "spi-bit"
			mut[at+tp.Intn(4, "spib")] ^= 1 << tp.Intn(8, "bit")
		case 2:
			if at < 0 {
				return false, nil
			}
			kind = "algorithm"
			mut[at+4] ^= 1 << tp.Intn(8, "bit")
		case 3:
			kind = "payload-bit"
			mut[len(mut)-1-tp.Intn(48, "pb")] ^= 1 << tp.Intn(8, "bit")
		case 4:
			kind = "address-bit" // SCION common+address header: bytes 12..36
			mut[12+tp.Intn(24, "ab")] ^= 1 << tp.Intn(8, "bit")
		case 5:
			kind = "traffic-class"
			mut[0] ^= 0x0f
			mut[1] ^= 0xf0
		default:
			kind = "any-bit"
			mut[tp.Intn(len(mut), "anyb")] ^= 1 << tp.Intn(8, "bit")
		}
		tampered[p.d.ID] = kind
		r.Fault("scion-packet-tampered:" + kind)
		if !p.toSrv && tp.Bool(1, 3, "twice") {
			// a tampered response arrives twice (the first copy uses up the client's single retry)
			// and the genuine one not at all
			w.extraOut = [][]byte{append([]byte(nil), mut...)}
			r.Fault("scion-response-tampered-twice")
		}
		return false, mut
	}
	// ---- wire monitor on everything the server's sockets send and the client's sockets read
	var curAttemptReq *simnet.Datagram
	w.net.OnSend = func(d *simnet.Datagram) {
		if d.SrcConn == nil {
			return
		}
		switch d.SrcConn.Host() {
		case w.cli:
			if d.SrcConn.Local().Port() == scEndhost {
				if d.Dst.Port() == scRouterPort {
					fwdToRouter++
				}
				return
			}
			curAttemptReq = d
		case w.srv:
			if d.Dst.Addr().Unmap() == netip.MustParseAddr(scCliIP).Unmap() {
				if fp := parseSCION(d.Payload); d.SrcConn.Local().Port() == scEndhost && fp.ok && fp.isUDP {
					// the forwarder passing on a SCION/UDP packet that names another host. When that
					// packet came in from another host it is not a reply, and the property says
					// nothing about it; when it came from one of the server's own sockets it is the
					// server's reply on its way out
					if c := w.net.Delivered(d.Cause); c != nil && (c.SrcConn == nil || c.SrcConn.Host() != w.srv) {
						return
					}
				}
				// the client sits in another AS: every reply of the server goes back to the
				// previous hop, never straight to the host named in the SCION header
				r.Fail("C13", "reply/not-to-previous-hop", "the server sent a datagram straight to the client host %v instead of the previous hop", d.Dst)
				return
			}
			if d.Dst.Port() != scRouterPort {
				// forwarded to a local port
				forwardedTo[d.Dst.Port()] = append(forwardedTo[d.Dst.Port()], d)
				return
			}
			nreplies++
			repliesByCause[d.Cause]++
			if oddAuth[d.Cause] {
				return // judged by the driver
			}
			// the request this reply answers, as the listener received it
			cause := w.net.Delivered(d.Cause)
			if cause == nil {
				r.Fail("harness", "c13/no-cause", "reply %d has no cause", d.ID)
				return
			}
			reqRaw := cause.Payload
			rq := parseSCION(reqRaw)
			rp := parseSCION(d.Payload)
			if !rp.ok || !rq.ok {
				r.Fail("C13", "reply/undecodable", "reply %d or its request does not decode as SCION", d.ID)
				return
			}
			// previous hop
			if d.Dst != cause.Src {
				r.Fail("C13", "reply/next-hop", "reply sent to %v, the request came from %v", d.Dst, cause.Src)
				return
			}
			if rp.scn.DstIA != rq.scn.SrcIA || rp.scn.SrcIA != rq.scn.DstIA ||
				!bytes.Equal(rp.scn.RawDstAddr, rq.scn.RawSrcAddr) || !bytes.Equal(rp.scn.RawSrcAddr, rq.scn.RawDstAddr) ||
				rp.scn.DstAddrType != rq.scn.SrcAddrType || rp.scn.SrcAddrType != rq.scn.DstAddrType {
				r.Fail("C13", "reply/addresses", "reply addresses are not the request's exchanged: %v,%x -> %v,%x (request %v,%x -> %v,%x)",
					rp.scn.SrcIA, rp.scn.RawSrcAddr, rp.scn.DstIA, rp.scn.RawDstAddr, rq.scn.SrcIA, rq.scn.RawSrcAddr, rq.scn.DstIA, rq.scn.RawDstAddr)
				return
			}
			want, err := []byte(nil), error(nil)
			if rqp := rawPathOf(&rq.scn); rqp != nil {
				want, err = reverseRaw(rqp)
				if err != nil {
					r.Fail("harness", "c13/reverse", "cannot reverse request path: %v", err)
					return
				}
			}
			if !bytes.Equal(rawPathOf(&rp.scn), want) || rp.scn.PathType != rq.scn.PathType {
				r.Fail("C13", "reply/path", "reply path is not the reversed request path (type %v vs %v)", rp.scn.PathType, rq.scn.PathType)
				return
			}
			if rq.isUDP {
				if !rp.isUDP || rp.udp.DstPort != rq.udp.SrcPort || rp.udp.SrcPort != rq.udp.DstPort {
					r.Fail("C13", "reply/ports", "reply ports %d->%d, request ports %d->%d", rp.udp.SrcPort, rp.udp.DstPort, rq.udp.SrcPort, rq.udp.DstPort)
					return
				}
				// authentication
				key := keyAt(w.srv.Clock.At(cause.ArrivedAt)) // the listener names its receive timestamp
				present, valid := macVerdict(reqRaw, key, scion.PacketAuthSPIClient)
				if srvAuth && present && !valid && w.dc.failHostAS {
					// The listener could not get a key: it serves the request the way it serves one without
					// an authenticator - and then its reply must not claim authentication either.
					if rpresent, _ := macVerdict(d.Payload, key, scion.PacketAuthSPIServer); rpresent {
						r.Fail("C13", "request/bad-mac-authenticated", "while the daemon was unavailable, a request whose authenticator does not verify was answered with a server authenticator (tamper: %q)", tampered[cause.Cause])
						return
					}
					r.Probe("served-unauthenticated-while-daemon-down")
				} else if srvAuth && present && !valid {
					r.Fail("C13", "request/bad-mac-served", "a request whose authenticator does not verify was served (tamper: %q)", tampered[cause.Cause])
					return
				}
				if srvAuth && present && valid && !w.dc.failHostAS {
					rpresent, rvalid := macVerdict(d.Payload, key, scion.PacketAuthSPIServer)
					if !rpresent || !rvalid {
						r.Fail("C13", "reply/authenticator", "reply to a verified request: authenticator present=%v verifies=%v (server DSCP %d, client DSCP %d)", rpresent, rvalid, srvDSCP, cliDSCP)
						return
					}
					nverified++
					r.Probe("authenticated-exchange")
				}
				r.Probe("ntp-reply-checked")
			} else if rq.isSCMP {
				if !rp.isSCMP || !bytes.Equal(rp.pld, rq.pld) {
					r.Fail("C13", "scmp/payload", "SCMP reply does not echo the request's payload intact")
					return
				}
				wantT := slayers.SCMPTypeEchoReply
				if rq.scmp.TypeCode.Type() == slayers.SCMPTypeTracerouteRequest {
					wantT = slayers.SCMPTypeTracerouteReply
				}
				if rp.scmp.TypeCode.Type() != wantT {
					r.Fail("C13", "scmp/type", "SCMP reply type %v to request type %v", rp.scmp.TypeCode.Type(), rq.scmp.TypeCode.Type())
					return
				}
				r.Probe("scmp-reply-checked")
			}
		}
	}
	// client acceptance: which datagram did the client consume last when it reported
	seenCalls := 0
	w.net.OnClose = func(c *simnet.UDPConn) {
		if c.Host() != w.cli || c.Local().Port() == scEndhost {
			return
		}
		if len(filter.calls) == seenCalls {
			return
		}
		seenCalls = len(filter.calls)
		last := c.LastRecv
		if last == nil {
			r.Fail("C13", "client/nothing-consumed", "offset reported without a datagram")
			return
		}
		if cliAuth {
			present, valid := macVerdict(last.Payload, keyAt(w.dc.lastHH), scion.PacketAuthSPIServer)
			if present && !valid {
				r.Fail("C13", "response/bad-mac-accepted", "the client accepted a response whose authenticator does not verify")
				return
			}
			if present && valid {
				r.Probe("client-verified-response")
			}
		}
	}
	_ = curAttemptReq

	// ---- workload
	nmeas := 3 + tp.Intn(12, "nmeas")
	okN, failN := 0, 0
	craft := func(l4dst uint16, underlayPort int, scmpType slayers.SCMPType, pld []byte) {
		// a packet from the attacker's side of the router straight to a server socket
		// (the sending host's address is of the other family than the server's in a third of the
		// crafted packets: SCION carries the two host addresses with separate type/length fields)
		srcIP := scCliIP
		if tp.Bool(1, 3, "mixedfamily") {
			srcIP = map[bool]string{true: "10.9.9.9", false: "fd00:9::9"}[scV6]
			r.Probe("mixed-address-families")
		}
		if scmpType != 0 && tp.Bool(1, 3, "scmp-ext") {
			// an echo or traceroute request behind extension headers: the reply is still an SCMP
			// message that echoes the payload
			buildSCIONExt = 1 + tp.Intn(3, "scmp-extkind")
			r.Probe("scmp-request-behind-extension-headers")
		}
		raw := buildSCION(scCliIA, scSrvIA, srcIP, scSrvIP, 41000, l4dst, segLens, scmpType, pld)
		buildSCIONExt = 0
		d := w.net.NewDatagram(netip.AddrPortFrom(netip.MustParseAddr(scRouterIP(0)), scRouterPort),
			netip.AddrPortFrom(netip.MustParseAddr(scSrvIP), uint16(underlayPort)), raw, "crafted")
		w.net.Inject(d, 40*time.Microsecond)
	}
	w.goSafe("driver", func() {
		defer r.Finish()
		for k := 0; k < nmeas && r.Violation() == nil; k++ {
			if r.Sleep(fmt.Sprintf("gap:%d", k), w.cli.Node, time.Duration(tp.Range(int64(10*time.Millisecond), int64(2*time.Second), "gap"))).Killed {
				return
			}
			w.dc.failHostAS = false
			daemonDown := (daemonFaults && tp.Bool(1, 4, "daemondown")) || w.srvNoDaemon
			if daemonDown {
				w.dc.failHostAS = true
				r.Fault("drkey-daemon-unavailable")
			}
			switch tp.Intn(9, "action") {
			case 8: // the client side's forwarder is no time server: it relays SCION/UDP or stays silent
				if !w.useForwarder {
					continue
				}
				l4 := []uint16{0, 0, 12345, 123}[tp.Intn(4, "fwd-l4")]
				pld := make([]byte, 48)
				pld[0] = 0x23
				pld[40] = byte(k + 1)
				if tp.Bool(1, 2, "fwd-nts") {
					pld = c09ValidNTS(pld, throwaway)
				}
				raw := buildSCION(scSrvIA, scCliIA, scSrvIP, scCliIP, 41000, l4, segLens, 0, pld)
				n0 := fwdToRouter
				w.net.Inject(w.net.NewDatagram(netip.AddrPortFrom(netip.MustParseAddr(scRouterIP(0)), scRouterPort),
					netip.AddrPortFrom(netip.MustParseAddr(scCliIP), scEndhost), raw, "crafted: request to the forwarder"), 40*time.Microsecond)
				if r.Sleep(fmt.Sprintf("fwdreq:%d", k), w.cli.Node, 5*time.Millisecond).Killed {
					return
				}
				if fwdToRouter != n0 {
					r.Fail("C13", "forward/forwarder-answered", "the end-host forwarder answered a SCION/UDP packet for L4 port %d itself (%d datagram(s) back to the router)", l4, fwdToRouter-n0)
					return
				}
				r.Probe("forwarder-stayed-a-forwarder")
			case 7: // a request whose authenticator option (client SPI, the algorithm) is cut short or overlong
				req := make([]byte, 48)
				req[0] = 0x23
				req[40] = byte(k + 1)
				alen := []int{5, 12, 16, 20, 24, 27, 29, 40}[tp.Intn(8, "authlen")]
				raw := c08SCIONPacket(tp, scSvcPort, segLens, alen, -1, req)
				d := w.net.NewDatagram(netip.AddrPortFrom(netip.MustParseAddr(scRouterIP(0)), scRouterPort),
					netip.AddrPortFrom(netip.MustParseAddr(scSrvIP), scSvcPort), raw, "crafted: authenticator of odd length")
				oddAuth[d.ID] = true
				w.net.Inject(d, 40*time.Microsecond)
				if r.Sleep(fmt.Sprintf("odd:%d", k), w.cli.Node, 5*time.Millisecond).Killed {
					return
				}
				// a MAC that is not all there verifies under no key: with authentication on at the
				// listener such a request is never served
				if srvAuth && !w.dc.failHostAS && repliesByCause[d.ID] != 0 {
					r.Fail("C13", "request/bad-mac-served", "a request whose authenticator option carries %d bytes (client SPI and algorithm, the MAC cut short or overlong) was answered", alen)
					return
				}
				r.Probe("authenticator-of-odd-length")
			case 6: // a plain NTP request from a scripted host (possibly of the other address family)
				req := make([]byte, 48)
				req[0] = 0x23
				req[40] = byte(k + 1)
				craft(scSvcPort, scSvcPort, 0, req)
				r.Probe("crafted-ntp-request")
			case 0: // SCMP echo / traceroute request
				typ := []slayers.SCMPType{slayers.SCMPTypeEchoRequest, slayers.SCMPTypeTracerouteRequest}[tp.Intn(2, "scmpt")]
				pld := make([]byte, 8+tp.Intn(40, "scmplen"))
				for i := range pld {
					pld[i] = byte(i * 7)
				}
				craft(0, scSvcPort, typ, pld)
				r.Probe("scmp-sent")
			case 1: // packet for another L4 port on the service port: must not be forwarded
				n0 := len(forwardedTo[otherPort])
				craft(otherPort, scSvcPort, 0, []byte("not for the time service"))
				if r.Sleep(fmt.Sprintf("fw1:%d", k), w.cli.Node, 5*time.Millisecond).Killed {
					return
				}
				if len(forwardedTo[otherPort]) != n0 {
					r.Fail("C13", "forward/from-service-port", "a packet for L4 port %d received on the service port was forwarded", otherPort)
					return
				}
				r.Probe("not-forwarded-from-service-port")
			case 2: // packet for another L4 port on the end-host port: forwarded, payload unchanged
				n0 := len(forwardedTo[otherPort])
				pld := []byte(fmt.Sprintf("forward me %d", k))
				craft(otherPort, scEndhost, 0, pld)
				if r.Sleep(fmt.Sprintf("fw2:%d", k), w.cli.Node, 5*time.Millisecond).Killed {
					return
				}
				fw := forwardedTo[otherPort]
				if len(fw) != n0+1 {
					r.Fail("C13", "forward/not-forwarded", "a packet for L4 port %d received on the end-host port was forwarded %d times", otherPort, len(fw)-n0)
					return
				}
				fp := parseSCION(fw[len(fw)-1].Payload)
				if !fp.ok || !fp.isUDP || !bytes.Equal(fp.pld, pld) || fw[len(fw)-1].Dst.Addr() != netip.MustParseAddr(scSrvIP) {
					r.Fail("C13", "forward/payload", "forwarded packet's payload or destination changed")
					return
				}
				r.Probe("forwarded-from-endhost-port")
			case 3: // packet addressed to the end-host port itself: never forwarded back to it
				n0 := len(forwardedTo[scEndhost])
				craft(scEndhost, scEndhost, 0, []byte("loop?"))
				if r.Sleep(fmt.Sprintf("fw3:%d", k), w.cli.Node, 5*time.Millisecond).Killed {
					return
				}
				if len(forwardedTo[scEndhost]) != n0 {
					r.Fail("C13", "forward/to-endhost-port", "a packet addressed to the end-host port was forwarded back to it")
					return
				}
				r.Probe("not-forwarded-to-endhost-port")
			default:
				ctx, cancel := simsync.WithTimeout(context.Background(), 300*time.Millisecond)
				calls0 := len(filter.calls)
				_, _, err := client.MeasureClockOffsetSCION(ctx, quietLog(), []*client.SCIONClient{cl}, laddr, raddr, []snet.Path{path})
				cancel()
				// (the multipath wrapper reports no error when every client failed; whether an
				// exchange was evaluated is visible at the recording filter)
				if err != nil || len(filter.calls) == calls0 {
					failN++
					r.Probe("measurement-failed")
					if tamperRate == 0 && !daemonDown && w.dc.epochLen == 0 {
						r.Fail("C13", "genuine/failed", "measurement %d failed although nothing was tampered: %v", k, err)
						return
					}
				} else {
					okN++
					r.Probe("measurement-ok")
					if scV6 {
						r.Probe("measurement-ok-ipv6")
					}
				}
			}
		}
	})
	reason := r.Loop(3_000_000, 0)
	r.SetVT()
	r.Drain()
	_ = sink
	if reason != "" && r.Violation() == nil {
		r.Fail("harness", "c13/"+reason, "scheduler stopped: %s pending=%v", reason, r.IdlePending)
	}
	_ = reqByID
	_ = nrejected
	r.Count("replies", int64(nreplies))
	r.Count("measurements-ok", int64(okN))
	return map[string]any{"server_auth": srvAuth, "client_auth": cliAuth, "server_dscp": srvDSCP, "client_dscp": cliDSCP, "forwarder": forwarder,
		"path_segments": segLens, "measurements_ok": okN, "failed": failN, "replies_checked": nreplies, "authenticated": nverified, "tampered": len(tampered)}
}

// buildSCION serialises a SCION/UDP (or SCMP) packet.
func buildSCION(srcIA, dstIA addr.IA, srcIP, dstIP string, srcPort, dstPort uint16, segLens []int, scmpType slayers.SCMPType, pld []byte) []byte {
	var s slayers.SCION
	s.SrcIA, s.DstIA = srcIA, dstIA
	if err := s.SetSrcAddr(addr.HostIP(netip.MustParseAddr(srcIP))); err != nil {
		panic(err)
	}
	if err := s.SetDstAddr(addr.HostIP(netip.MustParseAddr(dstIP))); err != nil {
		panic(err)
	}
	p := (&scionWorld{}).mkPath(0, segLens, 1, srcIA, dstIA)
	if err := p.Dataplane().SetPath(&s); err != nil {
		panic(err)
	}
	buffer := gopacket.NewSerializeBuffer()
	opts := gopacket.SerializeOptions{ComputeChecksums: true, FixLengths: true}
	if err := gopacket.Payload(pld).SerializeTo(buffer, opts); err != nil {
		panic(err)
	}
	if scmpType != 0 {
		s.NextHdr = slayers.L4SCMP
		var sc slayers.SCMP
		sc.TypeCode = slayers.CreateSCMPTypeCode(scmpType, 0)
		sc.SetNetworkLayerForChecksum(&s)
		if err := sc.SerializeTo(buffer, opts); err != nil {
			panic(err)
		}
	} else {
		s.NextHdr = slayers.L4UDP
		var u slayers.UDP
		u.SrcPort, u.DstPort = srcPort, dstPort
		u.SetNetworkLayerForChecksum(&s)
		if err := u.SerializeTo(buffer, opts); err != nil {
			panic(err)
		}
	}
	if buildSCIONExt&1 != 0 {
		e := slayers.EndToEndExtn{}
		e.NextHdr = s.NextHdr
		e.Options = append(e.Options, &slayers.EndToEndOption{OptType: 253, OptData: make([]byte, 16)})
		if err := e.SerializeTo(buffer, opts); err != nil {
			panic(err)
		}
		s.NextHdr = slayers.End2EndClass
	}
	if buildSCIONExt&2 != 0 {
		h := slayers.HopByHopExtn{}
		h.NextHdr = s.NextHdr
		h.Options = append(h.Options, &slayers.HopByHopOption{OptType: 7, OptData: make([]byte, 6)})
		if err := h.SerializeTo(buffer, opts); err != nil {
			panic(err)
		}
		s.NextHdr = slayers.HopByHopClass
	}
	if err := s.SerializeTo(buffer, opts); err != nil {
		panic(err)
	}
	return append([]byte(nil), buffer.Bytes()...)
}

// buildSCIONExt makes buildSCION put extension headers in front of the upper-layer header:
// bit 0 an end-to-end extension, bit 1 a hop-by-hop extension (set around single calls).
var buildSCIONExt int

var _ = ntp.PacketLen
var _ net.IP

func init() {
	simcore.Registry["C13"] = &simcore.Spec{
		World:      c13World,
		NonTrivial: func(r *simcore.Run) bool { return r.Counts["replies"] >= 2 },
	}
}

// c13Rebuild re-serialises an authenticated SCION/UDP packet: optionally with another
// SCION destination host and a MAC recomputed under the given key, optionally with a
// hop-by-hop extension in front of the end-to-end extension, optionally with one MAC bit
// flipped afterwards.
func c13Rebuild(p *scionPkt, newDstHost string, key []byte, spi uint32, addHBH, breakMAC bool) []byte {
	if !p.isUDP || !p.hasE2E {
		return nil
	}
	opt, err := p.e2e.FindOption(slayers.OptTypeAuthenticator)
	if err != nil || len(opt.OptData) != scion.PacketAuthOptDataLen {
		return nil
	}
	s := p.scn
	if newDstHost != "" {
		if err := s.SetDstAddr(addr.HostIP(netip.MustParseAddr(newDstHost))); err != nil {
			return nil
		}
	}
	buffer := gopacket.NewSerializeBuffer()
	opts := gopacket.SerializeOptions{ComputeChecksums: true, FixLengths: true}
	if err := gopacket.Payload(p.pld).SerializeTo(buffer, opts); err != nil {
		return nil
	}
	u := p.udp
	u.SetNetworkLayerForChecksum(&s)
	s.NextHdr = slayers.L4UDP
	if err := u.SerializeTo(buffer, opts); err != nil {
		return nil
	}
	data := append([]byte(nil), opt.OptData...)
	nopt := &slayers.EndToEndOption{OptType: slayers.OptTypeAuthenticator, OptData: data, OptAlign: [2]uint8{4, 2}}
	if key != nil {
		scion.PreparePacketAuthOpt(nopt, spi, scion.PacketAuthAlgorithm)
		aux := make([]byte, spao.MACBufferSize)
		if _, err := spao.ComputeAuthCMAC(spao.MACInput{Key: key, Header: slayers.PacketAuthOption{EndToEndOption: nopt},
			ScionLayer: &s, PldType: slayers.L4UDP, Pld: buffer.Bytes()}, aux, scion.PacketAuthOptMAC(nopt)); err != nil {
			return nil
		}
	}
	if breakMAC {
		nopt.OptData[scion.PacketAuthMetadataLen+3] ^= 0x10
	}
	e := slayers.EndToEndExtn{}
	e.NextHdr = slayers.L4UDP
	e.Options = []*slayers.EndToEndOption{nopt}
	if err := e.SerializeTo(buffer, opts); err != nil {
		return nil
	}
	s.NextHdr = slayers.End2EndClass
	if addHBH {
		h := slayers.HopByHopExtn{}
		h.NextHdr = slayers.End2EndClass
		h.Options = []*slayers.HopByHopOption{{OptType: slayers.OptTypePadN, OptData: make([]byte, 2)}}
		if err := h.SerializeTo(buffer, opts); err != nil {
			return nil
		}
		s.NextHdr = slayers.HopByHopClass
	}
	if err := s.SerializeTo(buffer, opts); err != nil {
		return nil
	}
	return append([]byte(nil), buffer.Bytes()...)
}
