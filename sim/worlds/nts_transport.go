//go:build go1.25

package worlds

import (
	"example.com/scion-time/net/scion"
	"context"
	"crypto/tls"
	"encoding/binary"
	"fmt"
	"net/netip"
	"time"

	"github.com/scionproto/scion/pkg/slayers"
	"github.com/scionproto/scion/pkg/snet"

	"example.com/scion-time/base/metrics"
	"example.com/scion-time/core/client"
	"example.com/scion-time/core/server"
	"example.com/scion-time/net/ntske"

	"verif.local/sim/simcore"
	"verif.local/sim/simnet"
	"verif.local/sim/simsync"
)

// ntsTransport is what the NTS worlds (C10, C11) need from the network under
// them, so that the same histories and wire monitors run over plain IP (real
// IPClient against real runIPServer listeners) and over SCION (real SCIONClient
// against real runSCIONServer listeners through the relay router). In both
// cases the key exchange is the real client and server code over a real TLS 1.3
// handshake on simulated TCP.
type ntsTransport interface {
	name() string
	network() *simnet.Net
	clientNode() *simcore.Node
	spawn(tag string, f func())
	// isRequest: d was sent by the client's own socket; isReply: d was sent by a listener
	isRequest(d *simnet.Datagram) bool
	isReply(d *simnet.Datagram) bool
	// lastHopToClient / lastHopToServer: d is the copy that is delivered to the client's
	// (the listeners') socket - over IP the datagram itself, over SCION the router's copy
	lastHopToClient(d *simnet.Datagram) bool
	lastHopToServer(d *simnet.Datagram) bool
	// ntp returns the NTP/NTS bytes d carries (nil if it is not such a datagram)
	ntp(d *simnet.Datagram) []byte
	// rewrap returns d's bytes with the NTP/NTS payload replaced (lengths and checksums fixed)
	rewrap(d *simnet.Datagram, payload []byte) []byte
	rewrapTrailing(d *simnet.Datagram, payload, trailing []byte) []byte
	// requestOf follows a datagram back to the client-sent datagram that caused it (0 if none)
	requestOf(d *simnet.Datagram) uint64
	measure(timeout time.Duration) error
	fetcher() *ntske.Fetcher
	provider() *ntske.Provider
	keyExchanges() int
	authenticatedCount() (float64, bool)
}

// requestOfChain follows the causality links of d (reply <- listener's read <- router's
// copy <- ...) back to the datagram a socket of host cli sent; duplicates made by the
// network count as their original.
func requestOfChain(n *simnet.Net, cli *simnet.Host, d *simnet.Datagram) uint64 {
	for i := 0; d != nil && i < 8; i++ {
		if d.SrcConn != nil && d.SrcConn.Host() == cli {
			if d.OrigID != 0 {
				return d.OrigID
			}
			return d.ID
		}
		d = n.Delivered(d.Cause)
	}
	return 0
}

// cookieUsableFor tells for how long a cookie can still be opened by the server: until the
// key that sealed it is retired.
func cookieUsableFor(prov *ntske.Provider, ck []byte) (time.Duration, bool) {
	var ec ntske.EncryptedServerCookie
	if err := ec.Decode(ck); err != nil {
		return 0, false
	}
	key, ok := prov.Get(int(ec.ID))
	if !ok {
		return 0, false
	}
	return key.Validity.NotAfter.Sub(time.Now()), true
}

func openCookieWith(prov *ntske.Provider, ck []byte) (ntske.ServerCookie, int, error) {
	var ec ntske.EncryptedServerCookie
	if err := ec.Decode(ck); err != nil {
		return ntske.ServerCookie{}, 0, err
	}
	key, ok := prov.Get(int(ec.ID))
	if !ok {
		return ntske.ServerCookie{}, int(ec.ID), fmt.Errorf("key %d not valid", ec.ID)
	}
	sc, err := ec.Decrypt(key.Value)
	return sc, int(ec.ID), err
}

// ---- over IP ------------------------------------------------------------------------------

type ntsIPTransport struct{ *ntsWorld }

func (t ntsIPTransport) name() string               { return "ip" }
func (t ntsIPTransport) network() *simnet.Net       { return t.net }
func (t ntsIPTransport) clientNode() *simcore.Node  { return t.cli.Node }
func (t ntsIPTransport) spawn(tag string, f func()) { t.goSafe(tag, f) }
func (t ntsIPTransport) fetcher() *ntske.Fetcher    { return &t.cl.Auth.NTSKEFetcher }
func (t ntsIPTransport) provider() *ntske.Provider  { return t.prov }
func (t ntsIPTransport) keyExchanges() int          { return t.nextK }
func (t ntsIPTransport) authenticatedCount() (float64, bool) {
	return promCounter(metrics.IPClientPktsAuthenticatedN), true
}
func (t ntsIPTransport) isRequest(d *simnet.Datagram) bool {
	return d.SrcConn != nil && d.SrcConn.Host() == t.cli && len(d.Payload) > 48
}
func (t ntsIPTransport) isReply(d *simnet.Datagram) bool {
	return d.SrcConn != nil && d.SrcConn.Host() == t.srv && len(d.Payload) >= 48
}
func (t ntsIPTransport) lastHopToClient(d *simnet.Datagram) bool { return t.isReply(d) }
func (t ntsIPTransport) lastHopToServer(d *simnet.Datagram) bool { return t.isRequest(d) }
func (t ntsIPTransport) ntp(d *simnet.Datagram) []byte           { return d.Payload }
func (t ntsIPTransport) rewrap(d *simnet.Datagram, payload []byte) []byte {
	return payload
}
func (t ntsIPTransport) rewrapTrailing(d *simnet.Datagram, payload, trailing []byte) []byte {
	return append(append([]byte(nil), payload...), trailing...)
}
func (t ntsIPTransport) requestOf(d *simnet.Datagram) uint64 { return requestOfChain(t.net, t.cli, d) }
func (t ntsIPTransport) measure(timeout time.Duration) error {
	_, _, err := t.measureIP(t.cl, timeout)
	return err
}

// ---- over SCION ---------------------------------------------------------------------------

// ntsSCIONWorld: real SCIONClient with NTS (key exchange over TLS on simulated TCP - the
// QUIC-over-SCION transport of the production wiring is not simulated), real
// runSCIONServer listeners with the real key Provider, relay router in between.
type ntsSCIONWorld struct {
	*scionWorld
	prov   *ntske.Provider
	cl     *client.SCIONClient
	filter *recFilter
	path   snet.Path
	nextK  int
	sent   map[uint64]*simnet.Datagram
}

func newNTSSCIONWorld(r *simcore.Run, nlisten int) *ntsSCIONWorld {
	tp := r.Tape
	w := &ntsSCIONWorld{scionWorld: newSCIONWorld(r, time.Duration(tp.Range(0, int64(time.Second), "srvoff")), 1), sent: map[uint64]*simnet.Datagram{}}
	w.net.TLSClientHost = w.cli
	w.net.Names = map[string]netip.Addr{keHost: netip.MustParseAddr(scSrvIP)}
	cert, pool := mkCert([]string{keHost}, []string{scSrvIP})
	w.prov = ntske.NewProvider()
	// packet authentication (DRKey) underneath NTS in a share of the runs: two optional
	// features that are on together
	spao := tp.Bool(1, 4, "spao-under-nts")
	if spao {
		r.Probe("nts-over-packet-authentication")
	}
	w.startServers(nlisten, spao, 0, w.prov, false)
	kecfg := &tls.Config{Certificates: []tls.Certificate{cert}, MinVersion: tls.VersionTLS13, NextProtos: []string{keALPN}}
	lst, err := w.net.ListenStream(hp(scSrvIP, kePort), kecfg)
	if err != nil {
		panic(err)
	}
	w.goSafe("ke-accept", func() {
		server.VerifRunNTSKEServerTLS(context.Background(), quietLog(), countingListener{lst, &w.nextK}, scSvcPort, w.prov)
	})
	w.filter = &recFilter{}
	w.cl = &client.SCIONClient{Log: quietLog(), Filter: w.filter}
	w.cl.Auth.NTSEnabled = true
	if spao {
		w.cl.Auth.Enabled = true
		w.cl.Auth.DRKeyFetcher = scion.NewFetcher(w.dc)
	}
	w.cl.Auth.NTSKEFetcher.TLSConfig = tls.Config{NextProtos: []string{keALPN}, ServerName: keHost, MinVersion: tls.VersionTLS13, RootCAs: pool}
	w.cl.Auth.NTSKEFetcher.Port = fmt.Sprint(kePort)
	w.cl.Auth.NTSKEFetcher.Log = quietLog()
	var segs []int
	if tp.Bool(2, 3, "path") {
		segs = []int{2 + tp.Intn(5, "h")}
		if tp.Bool(1, 3, "long-path") {
			// three segments, six to nine hops: with the SCION and UDP headers a request at pool
			// level 1 then exceeds 1280 bytes on the wire, the NTS packet inside it does not
			segs = []int{2 + tp.Intn(2, "h1"), 2 + tp.Intn(2, "h2"), 2 + tp.Intn(2, "h3")}
			r.Probe("scion-path-of-three-segments")
		}
	}
	w.path = w.mkPath(0, segs, 1, scCliIA, scSrvIA)
	return w
}

type ntsSCIONTransport struct{ *ntsSCIONWorld }

func (t ntsSCIONTransport) name() string               { return "scion" }
func (t ntsSCIONTransport) network() *simnet.Net       { return t.net }
func (t ntsSCIONTransport) clientNode() *simcore.Node  { return t.cli.Node }
func (t ntsSCIONTransport) spawn(tag string, f func()) { t.goSafe(tag, f) }
func (t ntsSCIONTransport) fetcher() *ntske.Fetcher    { return &t.cl.Auth.NTSKEFetcher }
func (t ntsSCIONTransport) provider() *ntske.Provider  { return t.prov }
func (t ntsSCIONTransport) keyExchanges() int          { return t.nextK }
func (t ntsSCIONTransport) authenticatedCount() (float64, bool) {
	return 0, false // the SCION client has no counter for NTS-authenticated packets
}
func (t ntsSCIONTransport) ntp(d *simnet.Datagram) []byte {
	p := parseSCION(d.Payload)
	if !p.ok || !p.isUDP {
		return nil
	}
	return p.pld
}
func (t ntsSCIONTransport) isRequest(d *simnet.Datagram) bool {
	return d.SrcConn != nil && d.SrcConn.Host() == t.cli && len(t.ntp(d)) > 48
}
func (t ntsSCIONTransport) isReply(d *simnet.Datagram) bool {
	return d.SrcConn != nil && d.SrcConn.Host() == t.srv && len(t.ntp(d)) >= 48
}
func (t ntsSCIONTransport) lastHopToClient(d *simnet.Datagram) bool {
	return d.SrcConn == t.routers[0] && d.Dst.Addr().Unmap() == netip.MustParseAddr(scCliIP) && len(t.ntp(d)) >= 48
}
func (t ntsSCIONTransport) lastHopToServer(d *simnet.Datagram) bool {
	return d.SrcConn == t.routers[0] && d.Dst.Addr().Unmap() == netip.MustParseAddr(scSrvIP) && len(t.ntp(d)) > 48
}
func (t ntsSCIONTransport) rewrap(d *simnet.Datagram, payload []byte) []byte {
	p := parseSCION(d.Payload)
	return scRebuild(p, func(s *slayers.SCION, u *slayers.UDP, pld *[]byte) { *pld = payload })
}

// rewrapTrailing puts trailing behind the end of the UDP datagram, inside the SCION payload:
// the UDP length covers payload only, the SCION payload length covers both.
func (t ntsSCIONTransport) rewrapTrailing(d *simnet.Datagram, payload, trailing []byte) []byte {
	raw := t.rewrap(d, payload)
	if raw == nil {
		return nil
	}
	raw = append(raw, trailing...)
	binary.BigEndian.PutUint16(raw[6:], binary.BigEndian.Uint16(raw[6:])+uint16(len(trailing)))
	return raw
}
func (t ntsSCIONTransport) requestOf(d *simnet.Datagram) uint64 {
	return requestOfChain(t.net, t.cli, d)
}
func (t ntsSCIONTransport) measure(timeout time.Duration) error {
	ctx, cancel := simsync.WithTimeout(context.Background(), timeout)
	defer cancel()
	laddr, raddr := t.udpAddrs()
	n0 := len(t.filter.calls)
	tag := simcore.Tag()
	client.MeasureClockOffsetSCION(ctx, quietLog(), []*client.SCIONClient{t.cl}, laddr, raddr, []snet.Path{t.path})
	simcore.SetTag(tag)
	if len(t.filter.calls) == n0 {
		return fmt.Errorf("no offset reported")
	}
	return nil
}
