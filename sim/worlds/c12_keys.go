//go:build go1.25

package worlds

import (
	"bytes"
	"crypto/tls"
	"fmt"
	"io"
	"os"
	"sort"
	"testing"
	"time"
	_ "time/tzdata"

	"github.com/anishathalye/porcupine"

	"example.com/scion-time/net/ntske"

	"verif.local/sim/simcore"
)

// W-keys: the real ntske.Provider under the bubble's virtual clock, driven by
// 1..8 concurrent callers over up to 30 virtual days, with statement-level
// yields inside the Provider methods and the simulator-aware mutex.
//
// The constants below are the ones the property statement gives (24 h renewal,
// 3 days validity, hence 2 days of guaranteed use); they are not read from the code.
const (
	c12Renewal  = 24 * time.Hour
	c12Validity = 3 * 24 * time.Hour
	c12Usable   = 2 * 24 * time.Hour
)

type c12Op struct {
	Caller   int
	Gap      time.Duration
	Kind     string // "current" | "get"
	Sel      string // for get: which id
	ID       int
	At       time.Duration // virtual instant (since start)
	OK       bool
	KeyID    int
	NB, NA   time.Duration // validity relative to start
	Inv, Ret uint64
}

type c12Key struct {
	value []byte
	nb    time.Time
	na    time.Time
	first time.Time // first instant Current handed it out
	last  time.Time // last instant Current handed it out
}

// c12LongHistory: one provider over some 180 years of daily (and longer) renewals - far
// more rotations than a 16-bit identifier could number: identifiers still never repeat,
// and what is handed out is valid when handed out.
func c12LongHistory(r *simcore.Run) any {
	activate(r)
	tp := r.Tape
	prov := ntske.NewProvider()
	start := time.Now()
	seen := map[int][]byte{}
	last := -1
	n := 66000 + tp.Intn(3000, "rotations")
	if v := os.Getenv("SIM_C12_LONG"); v != "" {
		fmt.Sscan(v, &n)
	}
	gaps := []time.Duration{c12Renewal + time.Second, c12Renewal + time.Second, 25 * time.Hour, 30 * time.Hour, c12Validity + time.Second, 80 * time.Hour}
	generated := 0
	go func() {
		simcore.SetTag("c0")
		defer r.Finish()
		for i := 0; i < n && r.Violation() == nil; i++ {
			// (mostly the shortest gap that renews: the bubble's clock, which starts in 2000,
			// must stay below the year 2262, where nanoseconds since 1970 leave int64)
			gap := gaps[0]
			if tp.Bool(1, 50, "longer") {
				gap = gaps[tp.Intn(len(gaps), "gap")]
			}
			if r.Sleep("gap", nil, gap).Killed {
				return
			}
			now := time.Now()
			k := prov.Current()
			if now.Before(k.Validity.NotBefore) || now.After(k.Validity.NotAfter) {
				r.Fail("C12", "current/not-valid-now", "after %d renewals: key %d handed out at %v is valid %v..%v", generated, k.ID,
					now.Sub(start), k.Validity.NotBefore.Sub(start), k.Validity.NotAfter.Sub(start))
				return
			}
			if k.ID != last {
				if _, dup := seen[k.ID]; dup {
					r.Fail("C12", "current/id-reused", "after %d renewals (%v): identifier %d is handed out for a second key", generated, now.Sub(start), k.ID)
					return
				}
				seen[k.ID] = append([]byte(nil), k.Value[:4]...)
				last = k.ID
				generated++
			}
			if i%64 == 0 {
				if g, ok := prov.Get(k.ID); !ok || g.ID != k.ID {
					r.Fail("C12", "get/lost-within-2d", "after %d renewals: Get(%d) fails for the key Current() has just handed out", generated, k.ID)
					return
				}
			}
		}
	}()
	reason := r.Loop(1_000_000, 0)
	r.SetVT()
	r.Drain()
	if reason != "" && r.Violation() == nil {
		r.Fail("harness", "c12long/"+reason, "scheduler stopped: %s", reason)
	}
	r.Fault("idle-gap-hours-to-days")
	r.Probe("long-history")
	r.Count("keys", int64(generated))
	return map[string]any{"long_history": true, "renewals": generated, "virtual_years": time.Since(start).Hours() / 8766}
}

// c12KEStall: the provider behind the real NTS-KE server. A client completes the TLS
// handshake and then takes its time - seconds to days - before it sends its request,
// while other traffic keeps the daily renewal going. The cookies it finally gets are
// sealed when they are issued: under a key that is valid then and was generated no more
// than the renewal interval before.
func c12KEStall(r *simcore.Run) any {
	tp := r.Tape
	nw := newNTSWorld(r, 1)
	w := nw.ipWorld
	pre := time.Duration(tp.Range(0, int64(30*time.Hour), "provider-age"))
	stall := []time.Duration{0, time.Second, 23 * time.Hour, 25 * time.Hour, 49 * time.Hour, 73 * time.Hour, 100 * time.Hour}[tp.Intn(7, "stall")]
	otherTraffic := tp.Bool(2, 3, "other-traffic")
	var summary string
	w.goSafe("driver", func() {
		defer r.Finish()
		if r.Sleep("age", w.cli.Node, pre).Killed {
			return
		}
		raw, err := w.net.DialStream(w.cli, hp(ipSrvIP, kePort))
		if err != nil {
			r.Fail("harness", "c12ke/dial", "%v", err)
			return
		}
		cfg := nw.cl.Auth.NTSKEFetcher.TLSConfig.Clone()
		tc := tls.Client(raw, cfg)
		if err := tc.Handshake(); err != nil {
			r.Fail("harness", "c12ke/handshake", "%v", err)
			return
		}
		// stalls of a day and more are walked in steps, with another client's exchange (here:
		// what it does to the provider) after each step
		for left := stall; left > 0; {
			step := min(left, 13*time.Hour)
			if r.Sleep("stall", w.cli.Node, step).Killed {
				return
			}
			left -= step
			if otherTraffic {
				nw.prov.Current()
			}
		}
		if stall >= 23*time.Hour {
			r.Fault("idle-gap-hours-to-days")
		}
		var msg []byte
		msg = append(msg, keRecord{Type: 1, Critical: true, Body: u16(0)}.bytes()...)
		msg = append(msg, keRecord{Type: 4, Critical: true, Body: u16(15)}.bytes()...)
		msg = append(msg, keRecord{Type: 0, Critical: true}.bytes()...)
		if _, err := tc.Write(msg); err != nil {
			r.Fail("harness", "c12ke/write", "%v", err)
			return
		}
		resp, _ := io.ReadAll(tc)
		tc.Close()
		issuedAt := time.Now()
		d, err := c14Decode(resp)
		if err != nil || len(d.Cookie) == 0 {
			r.Fail("C12", "ke/no-cookies", "a well-formed key exchange after a stall of %v got %d cookies (%v)", stall, len(d.Cookie), err)
			return
		}
		for i, ck := range d.Cookie {
			var ec ntske.EncryptedServerCookie
			if err := ec.Decode(ck); err != nil {
				r.Fail("C12", "ke/cookie-undecodable", "cookie %d: %v", i, err)
				return
			}
			k, ok := nw.prov.Get(int(ec.ID))
			if !ok {
				r.Fail("C12", "ke/sealed-under-invalid-key", "cookie %d, issued just now after a stall of %v, is sealed under key %d, which is not valid", i, stall, ec.ID)
				return
			}
			if age := issuedAt.Sub(k.Validity.NotBefore); age > c12Renewal+time.Second {
				r.Fail("C12", "ke/sealed-under-old-key", "cookie %d, issued just now after a stall of %v, is sealed under key %d, generated %v ago (renewal interval %v)", i, stall, ec.ID, age, c12Renewal)
				return
			}
		}
		r.Probe("key-exchange-after-stall")
		summary = fmt.Sprintf("provider aged %v, client stalled %v after the handshake, %d cookies under a key of the last 24 h", pre, stall, len(d.Cookie))
	})
	reason := r.Loop(500_000, 0)
	r.SetVT()
	r.Drain()
	if reason != "" && r.Violation() == nil {
		r.Fail("harness", "c12ke/"+reason, "scheduler stopped: %s", reason)
	}
	r.Count("keys", 1)
	return map[string]any{"key_exchange_stall": true, "summary": summary}
}

func c12World(t *testing.T, r *simcore.Run) any {
	if r.Index%2048 == 2047 {
		return c12LongHistory(r)
	}
	if r.Index%64 == 31 {
		return c12KEStall(r)
	}
	activate(r)
	tp := r.Tape
	// Swarm knobs.
	ncallers := 1 + tp.Intn(8, "ncallers")
	nops := 4 + tp.Intn(28, "nops")
	r.YieldsOn = tp.Bool(3, 4, "yields")
	r.YieldNum, r.YieldDen = uint64(1+tp.Intn(4, "ynum")), 4
	if tp.Bool(1, 3, "stalls") {
		// callers that are taken off the processor between two statements, for nanoseconds or for
		// longer than a renewal interval
		r.StallPerMille = uint64(1 + tp.Intn(60, "stallrate"))
		r.StallFor = []time.Duration{time.Nanosecond, time.Second, time.Hour, c12Renewal + time.Nanosecond, 2 * time.Nanosecond}
	}
	preAge := []time.Duration{0, time.Hour, 23 * time.Hour, 25 * time.Hour, 80 * time.Hour}[tp.Intn(5, "preage")]

	// a quarter of the runs live in a time zone with daylight saving time and start within
	// a few days of a switch (2000-03-26 and 2000-10-29, 01:00 UTC): validity periods are
	// spans of absolute time whatever the local calendar does
	if tp.Bool(1, 4, "dst-zone") {
		if zurich, err := time.LoadLocation("Europe/Zurich"); err == nil {
			saved := time.Local
			time.Local = zurich
			defer func() { time.Local = saved }()
			sw := []time.Time{time.Date(2000, 3, 26, 1, 0, 0, 0, time.UTC), time.Date(2000, 10, 29, 1, 0, 0, 0, time.UTC)}[tp.Intn(2, "which-switch")]
			preAge = sw.Sub(r.Start()) - time.Duration(tp.Range(0, int64(100*time.Hour), "before-switch"))
			r.Probe("local-zone-with-dst-switch")
		}
	}

	prov := ntske.NewProvider()
	start := r.Start()
	if preAge > 0 {
		time.Sleep(preAge)
	}

	// Pre-generate the scripts on the root goroutine (deterministic tape order).
	gapChoices := []time.Duration{0, 0, time.Nanosecond, time.Second, time.Hour, 6 * time.Hour,
		c12Renewal - time.Nanosecond, c12Renewal, c12Renewal + time.Nanosecond,
		c12Usable, c12Validity - time.Nanosecond, c12Validity, c12Validity + time.Nanosecond,
		4 * 24 * time.Hour, 5 * 24 * time.Hour}
	sels := []string{"cur", "cur", "prev", "prev2", "oldest", "never", "rand", "expired"}
	scripts := make([][]c12Op, ncallers)
	for c := range scripts {
		for k := 0; k < nops; k++ {
			op := c12Op{Caller: c}
			if tp.Bool(1, 2, "gap?") {
				op.Gap = gapChoices[tp.Intn(len(gapChoices), "gap")]
				if op.Gap >= time.Hour {
					r.Fault("idle-gap-hours-to-days")
				}
				if tp.Bool(1, 4, "gapjit") {
					op.Gap += time.Duration(tp.Range(0, int64(time.Hour), "gapj"))
				}
			}
			if tp.Bool(1, 2, "kind") {
				op.Kind = "get"
				op.Sel = sels[tp.Intn(len(sels), "sel")]
			} else {
				op.Kind = "current"
			}
			scripts[c] = append(scripts[c], op)
		}
	}

	// Oracle state (guarded by the single-runner discipline).
	issued := map[int]*c12Key{}
	var ids []int
	var hist []c12Op
	var evseq uint64
	tick := func() uint64 { evseq++; return evseq }
	rel := func(x time.Time) time.Duration { return x.Sub(start) }

	checkKey := func(site string, k ntske.Key, now time.Time) *c12Key {
		if k.Validity.NotAfter.Sub(k.Validity.NotBefore) != c12Validity {
			r.Fail("C12", site+"/validity-length", "key %d validity %v..%v is not 3 days", k.ID,
				rel(k.Validity.NotBefore), rel(k.Validity.NotAfter))
		}
		known := issued[k.ID]
		if known == nil {
			known = &c12Key{value: append([]byte(nil), k.Value...), nb: k.Validity.NotBefore, na: k.Validity.NotAfter}
			for _, id := range ids {
				o := issued[id]
				// identifiers grow with generation time and never repeat
				if (id > k.ID) != (o.nb.After(known.nb)) && !o.nb.Equal(known.nb) {
					r.Fail("C12", site+"/id-order", "key id %d (generated %v) vs id %d (generated %v)", k.ID, rel(known.nb), id, rel(o.nb))
				}
				if bytes.Equal(o.value, known.value) {
					r.Fail("C12", site+"/value-repeat", "key ids %d and %d share one value", id, k.ID)
				}
			}
			issued[k.ID] = known
			ids = append(ids, k.ID)
			sort.Ints(ids)
			r.Probe("keys-seen")
		} else if !bytes.Equal(known.value, k.Value) || !known.nb.Equal(k.Validity.NotBefore) || !known.na.Equal(k.Validity.NotAfter) {
			r.Fail("C12", site+"/id-repeat", "identifier %d names two different keys (generated %v and %v)", k.ID,
				rel(known.nb), rel(k.Validity.NotBefore))
		}
		_ = now
		return known
	}

	done := 0
	stalledOps := 0
	for c := 0; c < ncallers; c++ {
		c := c
		go func() {
			tag := fmt.Sprintf("c%d", c)
			simcore.SetTag(tag)
			defer func() {
				done++
				if done == ncallers {
					r.Finish()
				}
			}()
			for k := range scripts[c] {
				op := scripts[c][k]
				if r.Sleep(fmt.Sprintf("gap:%s:%d", tag, k), nil, op.Gap).Killed {
					return
				}
				now := time.Now()
				op.At = rel(now)
				op.Inv = tick()
				switch op.Kind {
				case "current":
					key := prov.Current()
					if end := time.Now(); end != now {
						// the caller was stalled inside the call (r.StallPerMille): the key was handed out
						// at some instant of [now, end] - valid at one of them, generated at most a renewal
						// interval before one of them; the run's history is not fed to the sequential model
						stalledOps++
						op.Ret = tick()
						if end.Before(key.Validity.NotBefore) || now.After(key.Validity.NotAfter) {
							r.Fail("C12", "current/not-valid", "Current() called at %v, back at %v (stalled inside), returned key %d valid %v..%v", op.At, rel(end), key.ID, rel(key.Validity.NotBefore), rel(key.Validity.NotAfter))
						}
						if age := now.Sub(key.Validity.NotBefore); age > c12Renewal {
							r.Fail("C12", "current/too-old", "Current() called at %v (stalled inside) returned key %d generated %v before the call (> 24h)", op.At, key.ID, age)
						}
						r.Probe("stalled-inside-a-call")
						continue
					}
					op.Ret = tick()
					op.OK, op.KeyID, op.NB, op.NA = true, key.ID, rel(key.Validity.NotBefore), rel(key.Validity.NotAfter)
					kk := checkKey("current", key, now)
					if now.Before(key.Validity.NotBefore) || now.After(key.Validity.NotAfter) {
						r.Fail("C12", "current/not-valid", "Current() at %v returned key %d valid %v..%v", op.At, key.ID, op.NB, op.NA)
					}
					if age := now.Sub(key.Validity.NotBefore); age > c12Renewal {
						r.Fail("C12", "current/too-old", "Current() at %v returned key %d generated %v earlier (> 24h)", op.At, key.ID, age)
					}
					if kk.first.IsZero() {
						kk.first = now
					}
					kk.last = now
					if now.Sub(key.Validity.NotBefore) > 0 {
						r.Probe("current-reused")
					} else {
						r.Probe("current-generated")
					}
				case "get":
					id := -7
					switch op.Sel {
					case "cur":
						if len(ids) > 0 {
							id = ids[len(ids)-1]
						}
					case "prev":
						if len(ids) > 1 {
							id = ids[len(ids)-2]
						}
					case "prev2":
						if len(ids) > 2 {
							id = ids[len(ids)-3]
						}
					case "oldest":
						if len(ids) > 0 {
							id = ids[0]
						}
					case "never":
						id = 1000000 + k
						if len(ids) > 0 && k%2 == 0 {
							id = ids[len(ids)-1] + 1 + k
						}
					case "rand", "expired":
						if len(ids) > 0 {
							id = ids[(k*7+c)%len(ids)]
						}
					}
					op.ID = id
					key, ok := prov.Get(id)
					if end := time.Now(); end != now {
						stalledOps++
						if ok && (end.Before(key.Validity.NotBefore) || now.After(key.Validity.NotAfter)) {
							r.Fail("C12", "get/expired-served", "Get(%d) called at %v, back at %v (stalled inside), returned a key valid %v..%v", id, op.At, rel(end), rel(key.Validity.NotBefore), rel(key.Validity.NotAfter))
						}
						r.Probe("stalled-inside-a-call")
						continue
					}
					op.Ret = tick()
					op.OK = ok
					kk := issued[id]
					if ok {
						op.KeyID, op.NB, op.NA = key.ID, rel(key.Validity.NotBefore), rel(key.Validity.NotAfter)
						if key.ID != id {
							r.Fail("C12", "get/wrong-id", "Get(%d) returned key %d", id, key.ID)
						}
						if now.Before(key.Validity.NotBefore) || now.After(key.Validity.NotAfter) {
							r.Fail("C12", "get/expired-served", "Get(%d) at %v returned a key valid %v..%v", id, op.At, op.NB, op.NA)
						}
						kk2 := checkKey("get", key, now)
						if now.Sub(kk2.nb) > c12Validity {
							r.Fail("C12", "get/beyond-3d", "Get(%d) at %v: key generated at %v still served", id, op.At, rel(kk2.nb))
						}
						r.Probe("get-hit")
					} else {
						if kk != nil && !kk.last.IsZero() && now.Sub(kk.last) <= c12Usable && !now.Before(kk.last) {
							r.Fail("C12", "get/lost-within-2d", "Get(%d) at %v failed although Current() handed that key out at %v (<= 2 days ago)",
								id, op.At, rel(kk.last))
						}
						if kk != nil {
							r.Probe("get-expired")
						} else {
							r.Probe("get-unknown")
						}
					}
				}
				hist = append(hist, op)
				r.Log("op %s %s id=%d ok=%v key=%d nb=%d", tag, op.Kind, op.ID, op.OK, op.KeyID, op.NB)
			}
		}()
	}
	reason := r.Loop(2_000_000, 0)
	r.SetVT()
	r.Drain()
	if reason != "" && r.Violation() == nil {
		r.Fail("harness", "c12/"+reason, "scheduler stopped: %s pending=%v", reason, r.PendingIDs())
	}
	r.Count("ops", int64(len(hist)))
	r.Count("callers", int64(ncallers))

	// History check: linearizability against a model written from the statement.
	if r.Violation() == nil && len(hist) <= 60 && stalledOps == 0 {
		c12Porcupine(r, hist)
	}
	sample := map[string]any{"callers": ncallers, "ops_per_caller": nops, "yields": r.YieldsOn,
		"virtual_time": r.Elapsed().String(), "keys": len(ids)}
	if len(hist) > 0 {
		n := len(hist)
		if n > 12 {
			n = 12
		}
		var hs []string
		for _, h := range hist[:n] {
			hs = append(hs, fmt.Sprintf("c%d +%v %s(%d)@%v -> ok=%v key=%d", h.Caller, h.Gap, h.Kind, h.ID, h.At, h.OK, h.KeyID))
		}
		sample["history_prefix"] = hs
	}
	return sample
}

// --- porcupine model ------------------------------------------------------------
//
// State: the keys generated so far (id -> generation instant) and the newest id.
// Current(t) may return the newest key if it is valid at t and at most 24 h old, or
// a key not seen before whose id is larger than every known id and which is
// generated at t. Get(id,t) may succeed only for a known key within 3 days of its
// generation, and must succeed for a key that Current handed out at most 2 days
// before t.

type c12State struct {
	ids  []int
	nb   []time.Duration
	last []time.Duration // last hand-out by Current
}

func (s c12State) clone() c12State {
	return c12State{append([]int(nil), s.ids...), append([]time.Duration(nil), s.nb...), append([]time.Duration(nil), s.last...)}
}

func c12Porcupine(r *simcore.Run, hist []c12Op) {
	model := porcupine.Model{
		Init: func() interface{} { return c12State{} },
		Step: func(state, input, output interface{}) (bool, interface{}) {
			s := state.(c12State)
			op := input.(c12Op)
			res := output.(c12Op)
			switch op.Kind {
			case "current":
				n := len(s.ids)
				if n > 0 && s.ids[n-1] == res.KeyID {
					if s.nb[n-1] != res.NB || op.At-s.nb[n-1] > c12Renewal || op.At < s.nb[n-1] {
						return false, s
					}
					ns := s.clone()
					ns.last[n-1] = op.At
					return true, ns
				}
				if n > 0 && res.KeyID <= s.ids[n-1] {
					return false, s
				}
				if res.NB != op.At && !(n == 0 && res.NB == 0) {
					// a key not seen before is generated by this very call, or it is
					// the key the provider generated when it was constructed (instant 0)
					return false, s
				}
				ns := s.clone()
				ns.ids = append(ns.ids, res.KeyID)
				ns.nb = append(ns.nb, res.NB)
				ns.last = append(ns.last, op.At)
				return true, ns
			case "get":
				idx := -1
				for i, id := range s.ids {
					if id == op.ID {
						idx = i
					}
				}
				if res.OK {
					return idx >= 0 && res.NB == s.nb[idx] && op.At >= s.nb[idx] && op.At-s.nb[idx] <= c12Validity, s
				}
				if idx >= 0 && op.At >= s.last[idx] && op.At-s.last[idx] <= c12Usable {
					return false, s
				}
				return true, s
			}
			return false, s
		},
		Equal: func(a, b interface{}) bool {
			x, y := a.(c12State), b.(c12State)
			if len(x.ids) != len(y.ids) {
				return false
			}
			for i := range x.ids {
				if x.ids[i] != y.ids[i] || x.nb[i] != y.nb[i] || x.last[i] != y.last[i] {
					return false
				}
			}
			return true
		},
	}
	ops := make([]porcupine.Operation, 0, len(hist))
	for _, h := range hist {
		ops = append(ops, porcupine.Operation{ClientId: h.Caller, Input: h, Call: int64(h.Inv), Output: h, Return: int64(h.Ret)})
	}
	switch porcupine.CheckOperationsTimeout(model, ops, 5*time.Second) {
	case porcupine.Illegal:
		r.Fail("C12", "history/not-linearizable", "history of %d Current/Get calls has no sequential explanation", len(hist))
	case porcupine.Unknown:
		r.Count("porcupine-unknown", 1)
	default:
		r.Count("porcupine-ok", 1)
	}
}

func init() {
	simcore.Registry["C12"] = &simcore.Spec{
		World: c12World,
		NonTrivial: func(r *simcore.Run) bool {
			return (r.Probes["keys-seen"] >= 2 && r.Probes["get-hit"] > 0) || r.Probes["long-history"] > 0 || r.Probes["key-exchange-after-stall"] > 0
		},
	}
}
