//go:build go1.25

// Package worlds contains the simulated worlds, one or more per property, and
// registers them in simcore.Registry.
package worlds

import (
	"crypto/tls"
	"io"
	"log/slog"
	"net"
	"runtime/debug"
	"strings"
	gosync "sync"

	"github.com/prometheus/client_golang/prometheus"

	"example.com/scion-time/core/client"
	"example.com/scion-time/core/sync"
	"example.com/scion-time/core/timebase"
	"example.com/scion-time/net/scion"
	"example.com/scion-time/net/udp"

	"verif.local/sim/simclock"
	"verif.local/sim/simcore"
)

// RootHooks are functions of the repository's root package (package main) that
// the worlds use for the real wiring; they are filled in by zz_verif_main_test.go.
type RootHooks struct {
	ConfigureIPClientNTS   func(c *client.IPClient, ntskeServer string, insecureSkipVerify bool, log *slog.Logger)
	NewNTPReferenceClockIP func(log *slog.Logger, localAddr, remoteAddr *net.UDPAddr, dscp uint8, authModes []string,
		ntskeServer string, insecureSkipVerify bool) client.ReferenceClock
	DefaultSyncConfig func() sync.Config
	// SyncConfigFrom passes settings as the configuration file gives them (factors, seconds)
	// through timeservice.go's syncConfig.
	SyncConfigFrom func(refImpact, peerImpact, cutoffSec, timeoutSec, intervalSec float64) sync.Config
	// SCIONClockClients: the clients timeservice.go builds for a SCION reference clock with the
	// given auth modes (nothing is contacted).
	SCIONClockClients func(log *slog.Logger, localAddr, remoteAddr udp.UDPAddr, authModes []string, ntskeServer string) []*client.SCIONClient
	// ClassifySources runs the service's createClocks on a list of configured reference clocks
	// and SCION peers and reports how many sources ended up in either list.
	ClassifySources func(refs, peers []string, local string) (nref, npeer int)
	// NewNTPReferenceClockSCION is timeservice.go's SCION reference clock (seven SCIONClients in
	// interleaved mode with Ntimed filters) with the given Pather; it also returns the clients.
	NewNTPReferenceClockSCION func(log *slog.Logger, localAddr, remoteAddr udp.UDPAddr, dscp uint8, pather *scion.Pather) (client.ReferenceClock, []*client.SCIONClient)
}

var Root RootHooks

// configureIPClientNTS wires an IPClient for NTS through timeservice.go's own function when
// the hook is there; otherwise the same settings are made here (TLS 1.3, ALPN ntske/1, the
// key-exchange host as server name).
func configureIPClientNTS(c *client.IPClient, ntskeServer string, log *slog.Logger) {
	if Root.ConfigureIPClientNTS != nil {
		Root.ConfigureIPClientNTS(c, ntskeServer, false, log)
		return
	}
	host, port, err := net.SplitHostPort(ntskeServer)
	if err != nil {
		panic(err)
	}
	c.Auth.Enabled = true
	c.Auth.NTSKEFetcher.TLSConfig = tls.Config{NextProtos: []string{"ntske/1"}, ServerName: host, MinVersion: tls.VersionTLS13}
	c.Auth.NTSKEFetcher.Port = port
	c.Auth.NTSKEFetcher.Log = log
}

var registerOnce gosync.Once

// registerClock installs the dispatching clock (timebase accepts one per process).
func registerClock() {
	registerOnce.Do(func() { timebase.RegisterClock(simclock.Global) })
}

// origGatherer is the registry that the repository's package-level metrics were
// registered with at init time (before any resetProm).
var origGatherer = prometheus.DefaultGatherer

// promCounter reads a counter registered at init time (e.g. the client metrics).
func promCounter(name string) float64 {
	mfs, err := origGatherer.Gather()
	if err != nil {
		return -1
	}
	for _, mf := range mfs {
		if mf.GetName() == name {
			var sum float64
			for _, m := range mf.GetMetric() {
				if m.GetCounter() != nil {
					sum += m.GetCounter().GetValue()
				}
			}
			return sum
		}
	}
	return -1
}

// resetProm gives promauto a fresh default registry so that metrics can be
// registered again in the next run.
func resetProm() {
	reg := prometheus.NewRegistry()
	prometheus.DefaultRegisterer = reg
	prometheus.DefaultGatherer = reg
}

// QuietLog is quietLog for the hook files of the root package.
func QuietLog() *slog.Logger { return quietLog() }

func quietLog() *slog.Logger {
	return slog.New(slog.NewTextHandler(io.Discard, &slog.HandlerOptions{Level: slog.LevelError + 4}))
}

// activate makes r the active run and points the dispatching clock at it.
func activate(r *simcore.Run) {
	registerClock()
	simcore.Active.Store(r)
}

func splitGoroutines(all string) []string {
	var out []string
	cur := ""
	for _, l := range strings.Split(all, "\n") {
		if strings.HasPrefix(l, "goroutine ") && cur != "" {
			out = append(out, cur)
			cur = ""
		}
		cur += l + "\n"
	}
	if cur != "" {
		out = append(out, cur)
	}
	return out
}

func containsAny(s string, subs ...string) bool {
	for _, x := range subs {
		if strings.Contains(s, x) {
			return true
		}
	}
	return false
}

func debugStack() []byte { return debug.Stack() }
