//go:build go1.25

package worlds

import (
	"context"
	"fmt"
	"log/slog"
	"net/netip"
	"time"

	"github.com/scionproto/scion/pkg/slayers"
	"github.com/scionproto/scion/pkg/snet"

	"example.com/scion-time/core/client"
	"example.com/scion-time/net/ntp"
	"example.com/scion-time/net/scion"

	"verif.local/sim/simcore"
	"verif.local/sim/simnet"
	"verif.local/sim/simsync"
)

// The SCION half of C03: the real SCIONClient (basic and interleaved mode,
// recording filter) against real runSCIONServer listeners through a relay
// router, optionally received through the real end-host forwarder (whose
// timestamp option then defines the client's receive time). Same ground-truth
// oracle as the IP half; the exchange's datagrams are followed hop by hop
// through the simulator's causality links.
func c03SCIONWorld(r *simcore.Run) any {
	tp := r.Tape
	srvOff := time.Duration(tp.Range(0, int64(48*time.Hour), "srvoff"))
	if tp.Bool(1, 2, "neg") {
		srvOff = -srvOff
	}
	if tp.Bool(1, 3, "small") {
		srvOff = time.Duration(tp.Range(0, int64(time.Second), "srvoff2"))
	}
	scDrawFamily(r)
	w := newSCIONWorld(r, srvOff, 1)
	forwarder := tp.Bool(1, 3, "forwarder")
	// every attempt opens a fresh socket: now and then the kernel hands out the port again
	w.net.ReusePorts = tp.Bool(1, 4, "reuseports")
	w.startServers(2, false, 0, nil, forwarder)
	r.ProcDelayMaxNs = []int64{0, 20000, 2000000}[tp.Intn(3, "pdelay")]
	plan := &w.net.Plan
	plan.MinLatency = time.Duration(tp.Range(0, int64(time.Millisecond), "minlat"))
	plan.MaxLatency = plan.MinLatency + time.Duration(tp.Range(0, int64(10*time.Millisecond), "jit"))
	if tp.Bool(2, 3, "faulty") {
		plan.Drop = uint64(tp.Range(0, 150, "drop"))
		plan.Dup = uint64(tp.Range(0, 150, "dup"))
		plan.DupSameInstant = uint64(tp.Intn(500, "dupsame"))
		if tp.Bool(1, 2, "long") {
			plan.LongDelay = uint64(tp.Range(10, 150, "longp"))
			plan.LongDelayMax = time.Duration(tp.Range(int64(time.Millisecond), int64(time.Second), "longmax"))
		}
	}
	stepServer := tp.Bool(1, 4, "srvsteps")
	interleaved := tp.Bool(2, 3, "interleaved")
	filter := &recFilter{}
	cl := &client.SCIONClient{Log: quietLog(), InterleavedMode: interleaved, Filter: filter}
	var segs []int
	if tp.Bool(2, 3, "path") {
		segs = []int{2 + tp.Intn(5, "h")}
	}
	path := w.mkPath(0, segs, 1, scCliIA, scSrvIA)
	laddr, raddr := w.udpAddrs()
	sent := map[uint64]*simnet.Datagram{}
	reqOf := map[*simnet.UDPConn]*simnet.Datagram{}
	// through the forwarder: its kernel receive timestamp goes missing now and then (no
	// timestamp option on that packet: the client's own receive timestamp counts), and a
	// reply of the previous exchange with a changed origin, re-addressed to the attempt's
	// port, reaches the client ahead of the genuine reply (rejected; nothing of it may stick)
	var fwdPlan, cliPlan simnet.FaultPlan
	staleRate := uint64(0)
	// (the client's own kernel transmit timestamp goes missing in some runs: see the IP half)
	cliTxFaults := tp.Bool(1, 5, "clitx")
	if forwarder || cliTxFaults {
		fwdPlan, cliPlan = w.net.Plan, w.net.Plan
		if forwarder {
			fwdPlan.RxStampMissing = uint64(tp.Intn(500, "fwd-rxmiss"))
			staleRate = uint64(tp.Intn(400, "stale-via-fwd"))
		}
		cliPlan.TxStampMissing = 200
		w.net.PlanFor = func(d *simnet.Datagram, at *simnet.UDPConn) *simnet.FaultPlan {
			if at != nil && at.Host() == w.cli && at.Local().Port() == scEndhost {
				if forwarder {
					return &fwdPlan
				}
				return nil
			}
			if at != nil && at.Host() == w.cli && cliTxFaults {
				return &cliPlan
			}
			return nil
		}
	}
	var lastReply *simnet.Datagram
	w.net.OnSend = func(d *simnet.Datagram) {
		sent[d.ID] = d
		if forwarder && d.SrcConn != nil && d.SrcConn == w.routers[0] && d.Dst.Port() == scEndhost && d.Dst.Addr().Unmap() == netip.MustParseAddr(scCliIP).Unmap() {
			lastReply = d
		}
		if d.SrcConn != nil && d.SrcConn.Host() == w.cli && d.SrcConn.Local().Port() != scEndhost && reqOf[d.SrcConn] == nil {
			reqOf[d.SrcConn] = d
			if lastReply != nil && staleRate > 0 && tp.Bool(staleRate, 1000, "stale?") {
				if lp := parseSCION(lastReply.Payload); lp.ok && lp.isUDP && len(lp.pld) >= 48 {
					port := d.SrcConn.Local().Port()
					pl := scRebuild(lp, func(s *slayers.SCION, u *slayers.UDP, pld *[]byte) {
						u.DstPort = port
						(*pld)[24+tp.Intn(8, "ob")] ^= 1 << tp.Intn(8, "obit")
					})
					if pl != nil {
						w.net.Inject(w.net.NewDatagram(lastReply.Src, lastReply.Dst, pl, "earlier reply, origin changed, re-addressed"),
							time.Duration(tp.Range(1000, int64(plan.MinLatency)+2000, "stale-delay")))
						r.Fault("unusable-reply-via-forwarder")
					}
				}
			}
		}
	}
	// origin follows a datagram back to the first datagram of its chain that was sent by host h
	origin := func(d *simnet.Datagram, h *simnet.Host) *simnet.Datagram {
		for i := 0; d != nil && i < 8; i++ {
			if d.SrcConn != nil && d.SrcConn.Host() == h {
				return d
			}
			c := w.net.Delivered(d.Cause)
			if c == nil {
				return nil
			}
			d = sent[c.ID]
			if d == nil {
				d = c
			}
		}
		return nil
	}
	type exch struct {
		q, qAtSrv, pSrv *simnet.Datagram
		t3              time.Time
	}
	var prev *exch
	seenCalls := 0
	checked, ilAccepted := 0, 0
	var samples []string
	w.net.OnClose = func(cn *simnet.UDPConn) {
		if cn.Host() != w.cli || cn.Local().Port() == scEndhost {
			return
		}
		q := reqOf[cn]
		delete(reqOf, cn)
		if len(filter.calls) == seenCalls {
			return
		}
		ts := filter.calls[len(filter.calls)-1]
		seenCalls = len(filter.calls)
		last := cn.LastRecv
		if last == nil || q == nil {
			r.Fail("C03", "scion/accept-nothing", "offset reported without a datagram")
			return
		}
		pSrv := origin(last, w.srv)
		if pSrv == nil {
			r.Fail("C03", "scion/accept-not-from-server", "the accepted datagram %d does not originate from the server", last.ID)
			return
		}
		qAtSrv := w.net.Delivered(pSrv.Cause) // what the listener had read: the router's copy of the request
		if qAtSrv == nil {
			r.Fail("harness", "c03s/no-cause", "server reply %d has no cause", pSrv.ID)
			return
		}
		qOrig := origin(sent[qAtSrv.ID], w.cli)
		if qOrig == nil && qAtSrv.OrigID != 0 {
			qOrig = origin(sent[qAtSrv.OrigID], w.cli)
		}
		if qOrig == nil || (qOrig.ID != q.ID && qOrig.OrigID != q.ID) {
			r.Fail("C03", "scion/accept-stale-reply", "the accepted reply answers another request than the one this attempt sent")
			return
		}
		// where was the client's receive timestamp taken: at the forwarder, or at its own socket
		t3 := last.ArrivedAt
		if forwarder {
			stamped := false
			if fp := parseSCION(last.Payload); fp.hasE2E {
				for _, o := range fp.e2e.Options {
					stamped = stamped || o.OptType == scion.OptTypeTimestamp
				}
			}
			if c := w.net.Delivered(last.Cause); c != nil && stamped {
				t3 = c.ArrivedAt // the forwarder's socket
			} else {
				r.Probe("forwarded-without-timestamp")
			}
		}
		cur := &exch{q: q, qAtSrv: qAtSrv, pSrv: pSrv, t3: t3}
		lp := parseSCION(last.Payload)
		qp := parseSCION(q.Payload)
		pp, ok1 := decodeNTP(lp.pld)
		qn, ok2 := decodeNTP(qp.pld)
		if !ok1 || !ok2 {
			r.Fail("C03", "scion/undecodable", "request or response payload is not NTP")
			return
		}
		ilReq := qn.ReceiveTime != qn.TransmitTime && (qn.OriginTime != ntp.Time64{} || qn.ReceiveTime != ntp.Time64{})
		ilResp := ilReq && pp.OriginTime == qn.ReceiveTime
		e := cur
		if ilResp {
			ilAccepted++
			r.Probe("scion-interleaved-accepted")
			if prev == nil {
				r.Fail("C03", "scion/interleaved-no-previous", "interleaved response accepted without a previous exchange")
				return
			}
			e = prev
		}
		prev = cur
		sc := w.srv.Clock
		T0, T3 := e.q.SentAt, e.t3
		if sc.SteppedBetween(T0.Add(-time.Millisecond), T3.Add(time.Millisecond)) {
			r.Probe("excluded-clock-step-inside-exchange")
			return
		}
		hint := e.pSrv.SentAt
		T1x, T2x := sc.InstantOf(ts[1], hint), sc.InstantOf(ts[2], hint)
		desc := fmt.Sprintf("SCION exchange(request sent %v, reached server %v, reply left %v, receive-stamped %v) mode=%v forwarder=%v t1@%v t2@%v",
			T0.Sub(r.Start()), e.qAtSrv.ArrivedAt.Sub(r.Start()), e.pSrv.SentAt.Sub(r.Start()), T3.Sub(r.Start()), ilResp, forwarder, T1x.Sub(r.Start()), T2x.Sub(r.Start()))
		if e.q.TxStampFault != "" {
			// t0 is a clock reading taken after the send: not before it, and - whatever else -
			// not after the response was received
			r.Probe("client-kernel-tx-stamp-missing")
			if ts[0].Before(w.cli.Clock.At(T0).Add(-c03Eps)) || ts[0].After(ts[3]) {
				r.Fail("C03", "scion/membership/t0", "software transmit timestamp %v of an exchange sent at %v and answered at %v (client clock); %s", ts[0], w.cli.Clock.At(T0), ts[3], desc)
			}
			return
		}
		if d := absDur(ts[0].Sub(w.cli.Clock.At(T0))); d > c03Eps {
			r.Fail("C03", "scion/membership/t0", "t0 differs from the request's transmit time by %v; %s", d, desc)
			return
		}
		if d := absDur(ts[3].Sub(w.cli.Clock.At(T3))); d > c03Eps {
			r.Fail("C03", "scion/membership/t3", "t3 differs from the response's receive time by %v; %s", d, desc)
			return
		}
		if T1x.Before(e.qAtSrv.ArrivedAt.Add(-c03Eps)) || T1x.After(e.pSrv.SentAt.Add(c03Eps)) {
			r.Fail("C03", "scion/membership/t1", "server receive timestamp not taken between arrival and departure; %s", desc)
			return
		}
		if T2x.Before(T1x.Add(-c03Eps)) || T2x.After(e.pSrv.SentAt.Add(c03Eps)) {
			r.Fail("C03", "scion/membership/t2", "server transmit timestamp not taken between its receive timestamp and the departure; %s", desc)
			return
		}
		off := ntp.ClockOffset(ts[0], ts[1], ts[2], ts[3])
		theta := (sc.OffsetAt(T1x) + sc.OffsetAt(T2x)) / 2
		half := (T3.Sub(T0) - T2x.Sub(T1x)) / 2
		if errv := absDur(off - theta); errv > half+c03Eps {
			r.Fail("C03", "scion/bound/half-rtt", "reported offset %v, true offset %v: error %v exceeds half the round-trip delay %v; %s", off, theta, errv, half, desc)
			return
		}
		checked++
		r.Probe("scion-bound-checked")
		if len(samples) < 5 {
			samples = append(samples, fmt.Sprintf("off=%v true=%v halfRTT=%v interleaved=%v", off, theta, half, ilResp))
		}
	}
	nmeas := 5 + tp.Intn(30, "nmeas")
	log := slog.New(&tagHandler{})
	w.goSafe("driver", func() {
		defer r.Finish()
		for k := 0; k < nmeas && r.Violation() == nil; k++ {
			gap := time.Duration(tp.Range(int64(10*time.Millisecond), int64(4*time.Second), "gap"))
			if r.Sleep(fmt.Sprintf("gap:%d", k), w.cli.Node, gap).Killed {
				return
			}
			if stepServer && tp.Bool(1, 4, "stepnow") {
				w.srv.Clock.StepBy(time.Duration(tp.Range(1, int64(2*time.Second), "stepby")) - time.Second)
				r.Fault("server-clock-step")
			}
			ctx, cancel := simsync.WithTimeout(context.Background(), []time.Duration{200 * time.Millisecond, time.Second}[tp.Intn(2, "to")])
			calls0 := len(filter.calls)
			_, retOff, retErr := client.MeasureClockOffsetSCION(ctx, log, []*client.SCIONClient{cl}, laddr, raddr, []snet.Path{path})
			cancel()
			simcore.SetTag("driver")
			// what the caller gets is the offset of the last exchange the client completed in this
			// measurement (one client, one path: the midpoint of one value)
			if n := len(filter.calls); retErr == nil && n > calls0 && r.Violation() == nil {
				if want := filter.outs[n-1]; retOff != want {
					r.Fail("C03", "scion/returned-offset", "measurement %d: the client's last completed exchange gave offset %v, the caller was handed %v", k, want, retOff)
					return
				}
				r.Probe("returned-offset-checked")
			}
		}
	})
	reason := r.Loop(3_000_000, 0)
	r.SetVT()
	r.Drain()
	if reason != "" && r.Violation() == nil {
		r.Fail("harness", "c03s/"+reason, "scheduler stopped: %s pending=%v", reason, r.IdlePending)
	}
	r.Count("exchanges-checked", int64(checked))
	return map[string]any{"transport": "scion", "server_offset": srvOff.String(), "forwarder": forwarder, "interleaved_mode": interleaved,
		"path_segments": segs, "measurements": nmeas, "checked": checked, "interleaved_accepted": ilAccepted, "examples": samples}
}
