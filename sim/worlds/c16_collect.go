//go:build go1.25

package worlds

import (
	"context"
	"errors"
	"fmt"
	"testing"
	"testing/synctest"
	"time"

	"example.com/scion-time/core/client"
	"example.com/scion-time/core/measurements"

	"verif.local/sim/simcore"
	"verif.local/sim/simsync"
)

// W-sync, collector configuration: the real ReferenceClockClient.MeasureClockOffsets
// (and through it collectMeasurements) with a context deadline and 0..8 scripted
// reference clocks whose completion instants are placed around the deadline.

type c16Timing int

const (
	c16Before c16Timing = iota
	c16JustBefore
	c16At
	c16JustAfter
	c16After
	c16OnCancel
	c16Never // ignores cancellation; returns only when the world lets it go
	c16NumTimings
)

var c16TimingNames = []string{"before", "deadline-1ns", "at-deadline", "deadline+1ns", "after", "on-cancel", "never"}

type c16Clock struct {
	r          *simcore.Run
	name       string
	timing     c16Timing
	fail       bool
	delay      time.Duration // for before/after
	off        time.Duration
	release    time.Time // virtual instant at which MeasureClockOffset returned
	called     int
	letGo      *bool
	deadline   time.Duration
	zeroTS     bool // succeeds with the zero time as timestamp
	ownTimeout bool // fails with an error that wraps context.DeadlineExceeded
}

type c16Outcome struct {
	ms       []measurements.Measurement
	start    time.Time
	ret      time.Time
	panicked any
	done     bool
}

var errScripted = errors.New("scripted clock failure")

func (c *c16Clock) MeasureClockOffset(ctx context.Context) (time.Time, time.Duration, error) {
	c.called++
	op := &simcore.Op{ID: fmt.Sprintf("clk:%s:%d", c.name, c.called), NoDelay: true}
	start := time.Now()
	switch c.timing {
	case c16OnCancel:
		op.Ready = func() bool { return ctx.Err() != nil }
	case c16Never:
		op.Ready = func() bool { return *c.letGo }
	default:
		op.Deadline = start.Add(c.delay)
	}
	c.r.Park(op) // a killed op returns too: scripted sources must return at world end
	c.release = time.Now()
	c.r.Log("clk %s returns at %d", c.name, c.release.Sub(c.r.Start()))
	if c.fail {
		if c.ownTimeout {
			// the clock gave up on a time limit of its own (a key exchange, a lookup): that is
			// this clock's failure, not the end of the round
			return time.Time{}, 0, fmt.Errorf("scripted clock: %w", context.DeadlineExceeded)
		}
		return time.Time{}, 0, errScripted
	}
	if c.zeroTS {
		// a successful result need not carry a timestamp (the local reference clock of the sync
		// loop reports the zero time): it is a result all the same
		c.r.Probe("success-with-zero-timestamp")
		return time.Time{}, c.off, nil
	}
	return c.release, c.off, nil
}

func c16World(t *testing.T, r *simcore.Run) any {
	activate(r)
	tp := r.Tape
	// Configuration: exhaustive enumeration for n <= 3 from the run index is done by
	// the tape's first choices being driven from the index in the Spec wrapper (see
	// c16Enum); otherwise sampled.
	n := tp.Intn(9, "nclocks")
	if tp.Bool(1, 8, "many-clocks") {
		n = 9 + tp.Intn(8, "nclocks-many") // more sources than any fixed pool of helpers
		r.Probe("more-than-eight-clocks")
	}
	dl := []time.Duration{0, time.Nanosecond, time.Millisecond, 500 * time.Millisecond, 3 * time.Second}[tp.Intn(5, "deadline")]
	letGo := false
	clocks := make([]*c16Clock, n)
	refclks := make([]client.ReferenceClock, n)
	for i := range clocks {
		c := &c16Clock{r: r, name: fmt.Sprintf("%d", i), letGo: &letGo, deadline: dl}
		c.timing = c16Timing(tp.Intn(int(c16NumTimings), "timing"))
		c.fail = tp.Bool(1, 3, "fail")
		c.zeroTS = tp.Bool(1, 5, "zero-timestamp")
		c.ownTimeout = tp.Bool(1, 3, "own-timeout")
		c.off = time.Duration(1000 + i) // unique, recognisable
		switch c.timing {
		case c16Before:
			if dl > 1 {
				c.delay = time.Duration(tp.Range(0, int64(dl)-1, "delay"))
			} else {
				c.delay = 0
				if dl == 0 {
					c.timing = c16At
				}
			}
		case c16JustBefore:
			c.delay = dl - 1
			if dl == 0 {
				c.delay = 0
				c.timing = c16At
			}
		case c16At:
			c.delay = dl
		case c16JustAfter:
			c.delay = dl + 1
		case c16After:
			c.delay = dl + 1 + time.Duration(tp.Range(0, int64(5*time.Second), "delay"))
		}
		r.Fault("clock-" + []string{"answers-before-deadline", "answers-just-before-deadline", "answers-at-deadline", "answers-just-after-deadline",
			"answers-after-deadline", "returns-on-cancel", "ignores-cancel"}[c.timing])
		if c.fail {
			r.Fault("clock-fails")
		}
		clocks[i] = c
		refclks[i] = c
	}
	nOverlap := tp.Intn(4, "overlaps") // overlapping second collections attempted
	if n == 0 {
		nOverlap = 0
	}
	second := tp.Bool(1, 2, "second-round")
	r.SelectsOn = tp.Bool(3, 4, "selects")
	// callers preempted between the statements of MeasureClockOffsets (its overlap guard)
	r.YieldsOn = tp.Bool(1, 2, "yields")
	r.YieldNum, r.YieldDen = 1, 1
	sameInstant := tp.Bool(1, 3, "same-instant")

	const sentinel = time.Duration(-424242)
	mkms := func() []measurements.Measurement {
		ms := make([]measurements.Measurement, n)
		for i := range ms {
			ms[i] = measurements.Measurement{Offset: sentinel - time.Duration(i)}
		}
		return ms
	}
	var coll client.ReferenceClockClient
	type outcome = c16Outcome
	first := &outcome{ms: mkms()}
	run := func(o *outcome, tag string, cl *client.ReferenceClockClient, clks []client.ReferenceClock) {
		simcore.SetTag(tag)
		defer func() {
			o.panicked = recover()
			o.ret = time.Now()
			o.done = true
			r.Log("collect %s done at %d panic=%v", tag, o.ret.Sub(r.Start()), o.panicked != nil)
		}()
		ctx, cancel := simsync.WithTimeout(context.Background(), dl)
		defer cancel()
		o.start = time.Now()
		cl.MeasureClockOffsets(ctx, clks, o.ms)
	}
	// a call that is refused for its arguments (result slice and clock list of different
	// lengths) before anything else happens on the collector must leave it usable
	badArgs := n > 0 && tp.Bool(1, 5, "bad-args-first")
	go func() {
		if r.Sleep("start:first", nil, 0).Killed {
			return
		}
		if badArgs {
			bad := &outcome{ms: mkms()[:n-1]}
			run(bad, "badargs", &coll, refclks)
			if bad.panicked == nil {
				r.Fail("C16", "args/accepted", "a collection with %d result slots for %d clocks was not refused", n-1, n)
				return
			}
			for _, c := range clocks {
				if c.called != 0 {
					r.Fail("C16", "args/started", "a collection refused for its arguments had started clock %s", c.name)
					return
				}
			}
			r.Probe("refused-for-its-arguments-first")
		}
		run(first, "first", &coll, refclks)
	}()
	// overlapping attempts while the first is (possibly) still in progress
	overlaps := make([]*outcome, nOverlap)
	for i := range overlaps {
		i := i
		o := &outcome{ms: mkms()}
		overlaps[i] = o
		at := time.Duration(tp.Range(0, int64(dl)+int64(time.Millisecond), "overlap-at"))
		if sameInstant && i == 0 {
			at = 0 // enters the collector at the instant the first caller does
			r.Probe("second-caller-at-the-same-instant")
		}
		go func() {
			if r.Sleep(fmt.Sprintf("start:ov%d", i), nil, at).Killed {
				return
			}
			// the attempt uses its own scripted clocks (never started if refused)
			o.start = time.Now()
			// "in progress" means past the collector's guard: a caller that started at an earlier
			// instant is (preemption between statements takes no virtual time); one that started
			// at this very instant may still be in front of it - that pair is judged by the driver
			inProgress := !first.done && !first.start.IsZero() && o.start.After(first.start)
			extra := []client.ReferenceClock{}
			for j := 0; j < n; j++ {
				extra = append(extra, &c16Clock{r: r, name: fmt.Sprintf("ov%d.%d", i, j), timing: c16Before, off: time.Duration(9000 + j), letGo: &letGo})
			}
			run(o, fmt.Sprintf("ov%d", i), &coll, extra)
			if inProgress && !first.done {
				// first still running after our attempt returned: we must have been refused
				if o.panicked == nil {
					r.Fail("C16", "overlap/accepted", "second collection started at %v while the first (started %v) was in progress and was not refused",
						o.start.Sub(r.Start()), first.start.Sub(r.Start()))
				} else {
					r.Probe("overlap-refused")
				}
			}
		}()
	}
	// The driver: wait for the first collection, check it, optionally run a second
	// round on the same collector, then let the "never" clocks go and check quiescence.
	var secondOut *outcome
	go func() {
		simcore.SetTag("driver")
		for !first.done {
			if r.Sleep("drv:wait", nil, time.Millisecond).Killed {
				return
			}
			if !first.start.IsZero() && time.Since(first.start) > dl+r.InjectedFor("first")+50*time.Millisecond {
				r.Fail("C16", "first/not-returned", "collection has not returned %v after its start; deadline was %v", time.Since(first.start), dl)
				return
			}
		}
		for _, o := range overlaps {
			for !o.done {
				if r.Sleep("drv:waitov", nil, time.Millisecond).Killed {
					return
				}
			}
		}
		firstRefused := false
		for _, o := range overlaps {
			if !o.start.Equal(first.start) {
				continue
			}
			// two callers at the same instant: whichever passes the guard first keeps the other
			// out until it returns, and it cannot return at that same instant unless it took no time
			switch {
			case first.panicked == nil && o.panicked == nil && first.ret.After(first.start) && o.ret.After(o.start):
				r.Fail("C16", "overlap/both-accepted", "two collections entered the same collector at %v and neither was refused (they returned after %v and %v)",
					o.start.Sub(r.Start()), first.ret.Sub(first.start), o.ret.Sub(o.start))
				return
			case first.panicked != nil && o.panicked == nil:
				firstRefused = true
				r.Probe("same-instant-first-caller-refused")
			case first.panicked == nil && o.panicked != nil:
				r.Probe("same-instant-second-caller-refused")
			}
		}
		if !firstRefused {
			c16CheckOutcome(r, "first", first, clocks, dl, sentinel)
		}
		// late clocks may still be running; the result slice must stay untouched
		if r.Sleep("drv:settle", nil, 6*time.Second).Killed {
			return
		}
		if second && r.Violation() == nil {
			// a new collection on the same collector after the first has returned must be accepted
			clks2 := make([]*c16Clock, n)
			ref2 := make([]client.ReferenceClock, n)
			for j := range clks2 {
				clks2[j] = &c16Clock{r: r, name: fmt.Sprintf("s%d", j), timing: c16Before, off: time.Duration(5000 + j), letGo: &letGo}
				ref2[j] = clks2[j]
			}
			secondOut = &outcome{ms: mkms()}
			run(secondOut, "second", &coll, ref2)
			simcore.SetTag("driver")
			if secondOut.panicked != nil {
				r.Fail("C16", "guard/not-released", "collection after the previous one returned was refused: %v", secondOut.panicked)
			} else {
				c16CheckOutcome(r, "second", secondOut, clks2, dl, sentinel)
				r.Probe("second-round")
			}
		}
		letGo = true
		if r.Sleep("drv:letgo", nil, time.Second).Killed {
			return
		}
		c16CheckStable(r, "first", first, sentinel)
		r.Finish()
	}()
	reason := r.Loop(200000, 0)
	r.SetVT()
	letGo = true
	r.Drain()
	if reason != "" && r.Violation() == nil {
		r.Fail("harness", "c16/"+reason, "scheduler stopped: %s pending=%v", reason, r.PendingIDs())
	}
	// Quiescence: every scripted clock has returned; no goroutine of the code under
	// test may be left behind (judged by the frames on the stacks of all goroutines).
	if r.Violation() == nil {
		synctest.Wait()
		left := ""
		for _, g := range simcore.BubbleGoroutines() {
			if containsAny(g, "scion-time/core/client", "scion-time/core/sync") {
				if len(g) > 700 {
					g = g[:700]
				}
				left += g + "\n"
			}
		}
		if left != "" {
			r.Fail("C16", "leak/goroutines", "goroutine(s) left after every clock's measurement call returned:\n%s", left)
		}
	}
	desc := make([]string, n)
	for i, c := range clocks {
		desc[i] = fmt.Sprintf("%s/%s", c16TimingNames[c.timing], map[bool]string{false: "ok", true: "err"}[c.fail])
	}
	r.Count("clocks", int64(n))
	return map[string]any{"clocks": desc, "deadline": dl.String(), "overlapping_attempts": nOverlap, "second_round": second,
		"returned_after": first.ret.Sub(first.start).String()}
}

func c16CheckOutcome(r *simcore.Run, tag string, o *c16Outcome, clocks []*c16Clock, dl time.Duration, sentinel time.Duration) {
	// The simulator may have held the collecting goroutine back (slow-goroutine
	// fault at its select): that much lateness is not the code's, and a result that
	// was handed over less than that before the return or the deadline may
	// legitimately have lost against the cancellation.
	injected := r.InjectedFor(tag)
	var maxSlow time.Duration
	if r.SelectsOn {
		maxSlow = time.Millisecond
	}
	if o.panicked != nil {
		r.Fail("C16", tag+"/panic", "collection panicked: %v", o.panicked)
		return
	}
	took := o.ret.Sub(o.start)
	if took > dl+injected {
		r.Fail("C16", tag+"/late-return", "collection returned %v after its start; deadline was %v (collector held back %v by the simulator)", took, dl, injected)
		return
	}
	if took == dl {
		r.Probe("returned-at-deadline")
	} else {
		r.Probe("returned-early")
		// before the deadline a collection ends only because every clock has answered (with a
		// result or an error): anything else gives up results that would have arrived in time
		for _, c := range clocks {
			if took < dl && (c.called == 0 || c.release.IsZero() || c.release.After(o.ret)) {
				r.Fail("C16", tag+"/early-return", "collection returned after %v, before its deadline %v, although clock %s had not answered yet", took, dl, c.name)
				return
			}
		}
	}
	// classify clocks by their release instant relative to the return instant
	must := map[time.Duration]bool{}
	may := map[time.Duration]bool{}
	for _, c := range clocks {
		if c.fail || c.release.IsZero() {
			continue
		}
		limit := o.ret
		if d := o.start.Add(dl); d.Before(limit) {
			limit = d
		}
		switch {
		case c.release.Add(maxSlow).Before(limit):
			must[c.off] = true
		case !c.release.After(o.ret):
			may[c.off] = true
		}
	}
	seen := map[time.Duration]int{}
	j := 0
	for ; j < len(o.ms); j++ {
		m := o.ms[j]
		if m.Offset <= sentinel+0 && m.Offset > sentinel-time.Duration(len(o.ms))-1 {
			break // untouched sentinel
		}
		seen[m.Offset]++
		if m.Error != nil {
			r.Fail("C16", tag+"/error-stored", "slot %d holds a failed measurement", j)
			return
		}
		if !must[m.Offset] && !may[m.Offset] {
			r.Fail("C16", tag+"/unexpected-result", "slot %d holds offset %d which no clock delivered in time", j, m.Offset)
			return
		}
	}
	for k := j; k < len(o.ms); k++ {
		if o.ms[k].Offset != sentinel-time.Duration(k) {
			r.Fail("C16", tag+"/hole", "slot %d after the first untouched slot %d was written (offset %d)", k, j, o.ms[k].Offset)
			return
		}
	}
	for off := range must {
		if seen[off] != 1 {
			r.Fail("C16", tag+"/lost-or-duplicated", "result %d of a clock that finished before the collection returned appears %d times", off, seen[off])
			return
		}
	}
	for off, cnt := range seen {
		if cnt > 1 {
			r.Fail("C16", tag+"/duplicated", "result %d appears %d times", off, cnt)
			return
		}
	}
	if len(may) > 0 {
		r.Probe("result-at-return-instant")
	}
	if j < len(o.ms) && len(must) > 0 {
		r.Probe("partial-round")
	}
	r.Count("results-stored", int64(j))
}

func c16CheckStable(r *simcore.Run, tag string, o *c16Outcome, sentinel time.Duration) {
	// after everything has settled the slots beyond the stored prefix are still sentinels
	j := 0
	for ; j < len(o.ms); j++ {
		if o.ms[j].Offset <= sentinel && o.ms[j].Offset > sentinel-time.Duration(len(o.ms))-1 {
			break
		}
	}
	for k := j; k < len(o.ms); k++ {
		if o.ms[k].Offset != sentinel-time.Duration(k) {
			r.Fail("C16", tag+"/late-write", "slot %d was written after the collection had returned", k)
			return
		}
	}
}

func init() {
	simcore.Registry["C16"] = &simcore.Spec{
		World: c16World,
		NonTrivial: func(r *simcore.Run) bool {
			return r.Counts["clocks"] >= 1
		},
	}
}
