//go:build go1.25

package worlds

import (
	"crypto/ed25519"
	"crypto/rand"
	"crypto/tls"
	"crypto/x509"
	"crypto/x509/pkix"
	"encoding/binary"
	"math/big"
	"net"
	"time"
)

// mkCert makes a self-signed Ed25519 certificate valid around the bubble's clock.
func mkCert(dnsNames []string, ips []string) (tls.Certificate, *x509.CertPool) {
	pub, priv, err := ed25519.GenerateKey(rand.Reader)
	if err != nil {
		panic(err)
	}
	tmpl := &x509.Certificate{
		SerialNumber:          big.NewInt(1),
		Subject:               pkix.Name{CommonName: "sim"},
		NotBefore:             time.Now().Add(-24 * time.Hour),
		NotAfter:              time.Now().Add(200 * 365 * 24 * time.Hour),
		KeyUsage:              x509.KeyUsageDigitalSignature | x509.KeyUsageCertSign,
		ExtKeyUsage:           []x509.ExtKeyUsage{x509.ExtKeyUsageServerAuth},
		BasicConstraintsValid: true,
		IsCA:                  true,
		DNSNames:              dnsNames,
	}
	for _, ip := range ips {
		tmpl.IPAddresses = append(tmpl.IPAddresses, net.ParseIP(ip))
	}
	der, err := x509.CreateCertificate(rand.Reader, tmpl, tmpl, pub, priv)
	if err != nil {
		panic(err)
	}
	leaf, err := x509.ParseCertificate(der)
	if err != nil {
		panic(err)
	}
	pool := x509.NewCertPool()
	pool.AddCert(leaf)
	return tls.Certificate{Certificate: [][]byte{der}, PrivateKey: priv, Leaf: leaf}, pool
}

// keRecord is one NTS-KE record as the scripted peer writes it (own encoder,
// independent of the repository's).
type keRecord struct {
	Type     uint16
	Critical bool
	Body     []byte
	Note     string
}

func (r keRecord) bytes() []byte {
	t := r.Type
	if r.Critical {
		t |= 0x8000
	}
	b := make([]byte, 4+len(r.Body))
	binary.BigEndian.PutUint16(b[0:], t)
	binary.BigEndian.PutUint16(b[2:], uint16(len(r.Body)))
	copy(b[4:], r.Body)
	return b
}

func u16(v uint16) []byte { return []byte{byte(v >> 8), byte(v)} }

// RFC 8915 exporter values, computed by the scripted peer from its own session.
func keExport(cs tls.ConnectionState) (c2s, s2c []byte, err error) {
	const label = "EXPORTER-network-time-security"
	s2c, err = cs.ExportKeyingMaterial(label, []byte{0, 0, 0, 15, 1}, 32)
	if err != nil {
		return
	}
	c2s, err = cs.ExportKeyingMaterial(label, []byte{0, 0, 0, 15, 0}, 32)
	return
}
