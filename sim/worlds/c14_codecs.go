//go:build go1.25

package worlds

import (
	"bufio"
	"bytes"
	"context"
	"crypto/rand"
	"crypto/tls"
	"fmt"
	"net"
	"net/netip"
	"reflect"
	"testing"
	"time"

	"example.com/scion-time/core/server"
	"example.com/scion-time/net/csptp"
	"example.com/scion-time/net/ntp"
	"example.com/scion-time/net/nts"
	"example.com/scion-time/net/ntske"

	"verif.local/sim/simcore"
	"verif.local/sim/simnet"
)

// W-ke / wire monitor for C14. The schedule-facing clause - an NTS-KE record
// stream decodes to the same data however the transport segments it - is decided
// on the simulated stream: every single cut position (exhaustive) and random
// multiple cuts, raw and through TLS with a peer that chooses its record sizes.
// The codec clauses are checked on the values the simulation produces: every
// datagram in flight is decoded and re-encoded, and scripted values with
// swarm-randomised fields (8/16-bit fields cycled across runs) go through the
// real encoders and decoders.

func c14KEMessage(tp *simcore.Tape, real bool, prov *ntske.Provider) ([]byte, string) {
	if real && server.VerifNewNTSKEMsg != nil {
		data := ntske.Data{C2sKey: make([]byte, 32), S2cKey: make([]byte, 32)}
		rand.Read(data.C2sKey)
		rand.Read(data.S2cKey)
		msg, err := server.VerifNewNTSKEMsg(context.Background(), quietLog(), net.ParseIP(ipSrvIP), ipPort, &data, prov)
		if err != nil {
			panic(err)
		}
		b, err := msg.Pack()
		if err != nil {
			panic(err)
		}
		return b.Bytes(), "message of the real NTS-KE server"
	}
	recs := []keRecord{{Type: 1, Critical: true, Body: u16(0)}, {Type: 4, Critical: true, Body: u16(15)}}
	if tp.Bool(1, 2, "srv") {
		recs = append(recs, keRecord{Type: 6, Body: []byte("10.0.0.1")})
	}
	if tp.Bool(1, 2, "port") {
		recs = append(recs, keRecord{Type: 7, Body: u16(uint16(tp.Intn(65536, "portv")))})
	}
	n := 1 + tp.Intn(8, "ncookies")
	for i := 0; i < n; i++ {
		c := make([]byte, tp.Intn(301, "cklen"))
		rand.Read(c)
		recs = append(recs, keRecord{Type: 5, Body: c})
		if tp.Bool(1, 4, "unk") {
			u := make([]byte, tp.Intn(64, "unklen"))
			rand.Read(u)
			recs = append(recs, keRecord{Type: uint16(200 + tp.Intn(3000, "unkt")), Body: u})
		}
	}
	recs = append(recs, keRecord{Type: 0, Critical: true})
	var b []byte
	for _, rc := range recs {
		b = append(b, rc.bytes()...)
	}
	return b, fmt.Sprintf("generated message with %d cookies", n)
}

func c14Decode(b []byte) (ntske.Data, error) {
	var d ntske.Data
	err := ntske.ReadData(context.Background(), quietLog(), bufio.NewReader(bytes.NewReader(b)), &d)
	return d, err
}

func c14World(t *testing.T, r *simcore.Run) any {
	tp := r.Tape
	nw := newNTSWorld(r, 2)
	w := nw.ipWorld
	w.net.AddHost("alt", w.srv.Clock, ipAltIP)
	idx := int(r.Index)

	// ---- wire monitor on every datagram in flight (codec identity)
	var monErr string
	monitored := 0
	w.net.OnSend = func(d *simnet.Datagram) {
		p := d.Payload
		if len(p) < 48 || monErr != "" {
			return
		}
		pk, ok := decodeNTP(p)
		if !ok {
			return
		}
		var re []byte
		ntp.EncodePacket(&re, &pk)
		if !bytes.Equal(re, p[:48]) {
			monErr = fmt.Sprintf("NTP header of datagram %d does not re-encode to its bytes", d.ID)
			return
		}
		if pk.LeapIndicator() != p[0]>>6 || pk.Version() != (p[0]>>3)&7 || pk.Mode() != p[0]&7 {
			monErr = fmt.Sprintf("leap/version/mode accessors disagree with first byte %#02x", p[0])
			return
		}
		monitored++
		if len(p) > 48 {
			// NTS: the repository's decoder against the harness's own field walker
			var np nts.Packet
			if err := nts.DecodePacket(&np, p); err != nil {
				return
			}
			var ncookie, nph int
			var uid, firstCookie []byte
			for _, f := range ntsWalk(p) {
				if f.typ == 0x0404 {
					break
				}
				if f.off%4 != 0 || len(f.body)%4 != 0 {
					monErr = fmt.Sprintf("extension field %#04x at %d (+%d) not 4-byte aligned", f.typ, f.off, len(f.body))
					return
				}
				switch f.typ {
				case 0x0104:
					uid = f.body
				case 0x0204:
					ncookie++
					if firstCookie == nil {
						firstCookie = f.body
					}
				case 0x0304:
					nph++
				}
			}
			if len(np.Cookies) != ncookie || len(np.CookiePlaceholders) != nph {
				monErr = fmt.Sprintf("decoder sees %d cookies / %d placeholders, the wire carries %d / %d", len(np.Cookies), len(np.CookiePlaceholders), ncookie, nph)
				return
			}
			if !bytes.Equal(np.UniqueID.ID, uid) || (ncookie > 0 && !bytes.Equal(np.Cookies[0].Cookie, firstCookie)) {
				monErr = "decoded unique identifier or cookie differs from the wire"
				return
			}
			r.Probe("nts-datagram-monitored")
		}
	}
	// a little traffic, with losses so that placeholders appear
	var cur int
	w.net.Intercept = func(d *simnet.Datagram) ([]simnet.Route, bool) {
		if len(d.Payload) > 48 && d.SrcConn != nil && d.SrcConn.Host() == w.srv && cur%3 == 1 {
			return nil, true
		}
		return nil, false
	}

	segCases, segTLS := 0, 0
	var notes []string
	fail := func(site, format string, a ...any) { r.Fail("C14", site, format, a...) }

	// ---- part A: segmentation of an NTS-KE record stream
	lst, err := w.net.ListenStream(hp(ipAltIP, 7000), nil)
	_ = err
	segmentation := func() {
		real := tp.Bool(1, 3, "realmsg")
		msg, what := c14KEMessage(tp, real, nw.prov)
		ref, refErr := c14Decode(msg)
		if refErr != nil {
			fail("ke/reference-decode", "%s does not decode unsegmented: %v", what, refErr)
			return
		}
		notes = append(notes, fmt.Sprintf("%s, %d bytes", what, len(msg)))
		// which cut sets: a window of single cut positions (all positions are covered
		// across the runs of a batch), plus random multi-cuts
		var cutSets [][]int
		win := 40
		start := (idx * win) % max(1, len(msg)-1)
		for p := start; p < start+win && p < len(msg)-1; p++ {
			cutSets = append(cutSets, []int{p + 1})
		}
		for k := 0; k < 6; k++ {
			var cs []int
			pos := 0
			for pos < len(msg)-1 {
				pos += 1 + tp.Intn(min(len(msg)-pos, 1+tp.Intn(200, "maxseg")), "seg")
				if pos < len(msg) {
					cs = append(cs, pos)
				}
			}
			cutSets = append(cutSets, cs)
		}
		cutSets = append(cutSets, func() []int { // byte by byte
			var cs []int
			for p := 1; p < len(msg); p++ {
				cs = append(cs, p)
			}
			return cs
		}())
		for ci, cs := range cutSets {
			useTLS := ci%7 == 6
			raw, err := w.net.DialStream(w.cli, hp(ipAltIP, 7000))
			if err != nil {
				fail("harness/dial", "%v", err)
				return
			}
			srvRaw, err := lst.AcceptRaw()
			if err != nil {
				return
			}
			var rd *bufio.Reader
			var wr net.Conn = srvRaw
			var cliConn net.Conn = raw
			if useTLS {
				cert, pool := mkCert([]string{"seg.sim"}, nil)
				sc := tls.Server(srvRaw, &tls.Config{Certificates: []tls.Certificate{cert}, MinVersion: tls.VersionTLS13})
				cc := tls.Client(raw, &tls.Config{RootCAs: pool, ServerName: "seg.sim", MinVersion: tls.VersionTLS13})
				wr, cliConn = sc, cc
				segTLS++
			}
			rd = bufio.NewReader(cliConn)
			done := false
			tag := fmt.Sprintf("seg%d", ci)
			w.goSafe(tag, func() {
				defer func() { done = true }()
				prev := 0
				for _, c := range append(append([]int(nil), cs...), len(msg)) {
					if _, err := wr.Write(msg[prev:c]); err != nil {
						return
					}
					prev = c
					// let the reader consume this piece before the next one is written
					if r.Sleep(fmt.Sprintf("segw:%s:%d", tag, c), w.srv.Node, time.Millisecond).Killed {
						return
					}
				}
				wr.Close()
			})
			var got ntske.Data
			gerr := ntske.ReadData(context.Background(), quietLog(), rd, &got)
			segCases++
			if gerr != nil {
				fail("ke/segmentation-error", "%s cut at %v (tls=%v): segmented stream fails to decode: %v", what, head3(cs), useTLS, gerr)
				return
			}
			if !reflect.DeepEqual(got, ref) {
				fail("ke/segmentation-differs", "%s cut at %v (tls=%v): decoded data differs from the unsegmented decode (cookies %d vs %d, server %q vs %q)",
					what, head3(cs), useTLS, len(got.Cookie), len(ref.Cookie), got.Server, ref.Server)
				return
			}
			for !done {
				if r.Sleep("segwait:"+tag, w.cli.Node, time.Millisecond).Killed {
					return
				}
			}
			cliConn.Close()
		}
		r.Probe("segmentation-checked")
	}

	// ---- part B: codec round trips on generated values
	codecs := func() {
		// NTP header: 8-bit fields cycled with the run index
		for k := 0; k < 64 && r.Violation() == nil; k++ {
			var b [48]byte
			rand.Read(b[:])
			b[0], b[1], b[2], b[3] = byte(idx), byte(idx*7+k), byte(idx*13+k), byte(k*5+idx)
			v16 := uint16((idx*64 + k) % 65536)
			b[4], b[5] = byte(v16>>8), byte(v16)
			b[10], b[11] = byte(v16>>8), byte(v16)
			pk, _ := decodeNTP(b[:])
			var re []byte
			ntp.EncodePacket(&re, &pk)
			if !bytes.Equal(re, b[:]) {
				fail("ntp/reencode", "NTP header %x does not re-encode to itself", b[:8])
				return
			}
			var pk2 ntp.Packet
			ntp.DecodePacket(&pk2, re)
			if pk2 != pk {
				fail("ntp/roundtrip", "NTP header decode(encode(x)) != x")
				return
			}
			var q ntp.Packet
			q.SetLeapIndicator(b[0] >> 6)
			q.SetVersion((b[0] >> 3) & 7)
			q.SetMode(b[0] & 7)
			if q.LVM != b[0] || q.LeapIndicator() != b[0]>>6 || q.Version() != (b[0]>>3)&7 || q.Mode() != b[0]&7 {
				fail("ntp/lvm", "leap/version/mode accessors and setters disagree with byte %#02x", b[0])
				return
			}
			// the setters on a header that already carries other values (a decoded header that is
			// turned into a reply): each replaces its own field and nothing else
			old := byte(k*37 + idx)
			q2 := ntp.Packet{LVM: old}
			q2.SetVersion((b[0] >> 3) & 7)
			if q2.Version() != (b[0]>>3)&7 || q2.LeapIndicator() != old>>6 || q2.Mode() != old&7 {
				fail("ntp/lvm", "SetVersion(%d) on a header with first byte %#02x gives %#02x", (b[0]>>3)&7, old, q2.LVM)
				return
			}
			q2 = ntp.Packet{LVM: old}
			q2.SetMode(b[0] & 7)
			q2.SetLeapIndicator(b[0] >> 6)
			if q2.Mode() != b[0]&7 || q2.LeapIndicator() != b[0]>>6 || q2.Version() != (old>>3)&7 {
				fail("ntp/lvm", "SetMode / SetLeapIndicator on a header with first byte %#02x give %#02x", old, q2.LVM)
				return
			}
		}
		// CSPTP message and TLVs
		var rqReused csptp.RequestTLV
		var rsReused csptp.ResponseTLV
		for k := 0; k < 32 && r.Violation() == nil; k++ {
			var raw [csptp.MinMessageLength]byte
			rand.Read(raw[:])
			raw[0], raw[1] = byte(idx), byte(idx+k)
			var m csptp.Message
			if err := csptp.DecodeMessage(&m, raw[:]); err != nil {
				fail("csptp/decode", "message decode: %v", err)
				return
			}
			out := make([]byte, csptp.MinMessageLength)
			csptp.EncodeMessage(out, &m)
			var m2 csptp.Message
			csptp.DecodeMessage(&m2, out)
			if m2 != m {
				fail("csptp/message-roundtrip", "CSPTP message decode(encode(x)) != x: %+v vs %+v", m2, m)
				return
			}
			var m3 csptp.Message
			csptp.EncodeMessage(out, &m2)
			csptp.DecodeMessage(&m3, out)
			if m3 != m2 {
				fail("csptp/message-stable", "CSPTP message not stable under re-encoding")
				return
			}
			// (the order varies, and besides a fresh destination every value is also decoded into a
			// destination struct that is reused from one message to the next, as receive loops do)
			order := [][]bool{{false, true}, {true, false}}[tp.Intn(2, "dsorder")]
			for _, withDS := range order {
				var rq csptp.RequestTLV
				rq.Type, rq.OrganizationID, rq.OrganizationSubType = uint16(idx*32+k), [3]uint8{byte(k), 2, 3}, [3]uint8{4, byte(idx), 6}
				rq.FlagField = uint32(tp.Intn(1<<16, "tlvflag")) &^ csptp.TLVFlagServerStateDS
				if withDS {
					rq.FlagField |= csptp.TLVFlagServerStateDS
				}
				rq.Length = uint16(csptp.EncodedRequestTLVLength(&rq))
				buf := make([]byte, csptp.EncodedRequestTLVLength(&rq))
				csptp.EncodeRequestTLV(buf, &rq)
				var rq2 csptp.RequestTLV
				if err := csptp.DecodeRequestTLV(&rq2, buf); err != nil || rq2 != rq || len(buf) != map[bool]int{false: 36, true: 54}[withDS] {
					fail("csptp/request-tlv", "request TLV round trip (server state %v): %v %+v vs %+v len %d", withDS, err, rq2, rq, len(buf))
					return
				}
				// the encoding is a function of the value alone: the same bytes whatever the
				// destination buffer held before (send loops reuse theirs)
				dirty := bytes.Repeat([]byte{0xa5}, len(buf))
				csptp.EncodeRequestTLV(dirty, &rq)
				if !bytes.Equal(dirty, buf) {
					fail("csptp/request-tlv-reused-buffer", "request TLV (server state %v) encoded into a buffer that held other bytes differs from its encoding into a zeroed one: %x vs %x", withDS, dirty, buf)
					return
				}
				if err := csptp.DecodeRequestTLV(&rqReused, buf); err != nil || rqReused != rq {
					fail("csptp/request-tlv-reused-destination", "request TLV decoded into a struct that held the previous message: %v %+v vs %+v", err, rqReused, rq)
					return
				}
				var rs csptp.ResponseTLV
				rs.Type, rs.OrganizationID, rs.OrganizationSubType = uint16(idx+k*3), [3]uint8{1, byte(k), 3}, [3]uint8{byte(idx), 5, 6}
				rs.FlagField = uint32(tp.Intn(1<<16, "tlvflag2")) &^ csptp.TLVFlagServerStateDS
				rs.Error = uint16(idx*32 + k)
				rand.Read(rs.RequestIngressTimestamp.Seconds[:])
				rs.RequestIngressTimestamp.Nanoseconds = uint32(tp.Intn(1_000_000_000, "ns"))
				rs.RequestCorrectionField = tp.Range(0, 1<<62, "corr") - 1<<61
				rs.UTCOffset = int16(idx*31 + k)
				if withDS {
					rs.FlagField |= csptp.TLVFlagServerStateDS
					rs.ServerStateDS = csptp.ServerStateDS{GMPriority1: byte(idx), GMClockClass: byte(k), GMClockAccuracy: byte(idx + k), GMClockVariance: uint16(idx * k),
						GMPriority2: byte(k * 3), GMClockID: uint64(tp.Range(0, 1<<62, "gmid")), StepsRemoved: uint16(idx + 7*k), TimeSource: byte(idx * 5), Reserved: byte(k)}
				}
				rs.Length = uint16(csptp.EncodedResponseTLVLength(&rs))
				buf = make([]byte, csptp.EncodedResponseTLVLength(&rs))
				csptp.EncodeResponseTLV(buf, &rs)
				var rs2 csptp.ResponseTLV
				if err := csptp.DecodeResponseTLV(&rs2, buf); err != nil || rs2 != rs || len(buf) != map[bool]int{false: 36, true: 54}[withDS] {
					fail("csptp/response-tlv", "response TLV round trip (server state %v): %v\n%+v\n%+v", withDS, err, rs2, rs)
					return
				}
				dirty = bytes.Repeat([]byte{0x5a}, len(buf))
				csptp.EncodeResponseTLV(dirty, &rs)
				if !bytes.Equal(dirty, buf) {
					fail("csptp/response-tlv-reused-buffer", "response TLV (server state %v) encoded into a buffer that held other bytes differs from its encoding into a zeroed one: %x vs %x", withDS, dirty, buf)
					return
				}
				r.Probe("tlv-encoded-into-reused-buffer")
				if err := csptp.DecodeResponseTLV(&rsReused, buf); err != nil || rsReused != rs {
					fail("csptp/response-tlv-reused-destination", "response TLV decoded into a struct that held the previous message: %v\n%+v\n%+v", err, rsReused, rs)
					return
				}
				r.Probe("reused-destination-decoded")
			}
		}
		// server cookies: plain and sealed, with key lengths that differ
		for k := 0; k < 16 && r.Violation() == nil; k++ {
			sc := ntske.ServerCookie{Algo: uint16(idx*16 + k), S2C: make([]byte, []int{32, 16, 64, 0, 33}[tp.Intn(5, "s2cl")]), C2S: make([]byte, []int{32, 16, 64, 0, 31}[tp.Intn(5, "c2sl")])}
			rand.Read(sc.S2C)
			rand.Read(sc.C2S)
			var sc2 ntske.ServerCookie
			if err := sc2.Decode(sc.Encode()); err != nil || sc2.Algo != sc.Algo || !bytes.Equal(sc2.S2C, sc.S2C) || !bytes.Equal(sc2.C2S, sc.C2S) {
				fail("cookie/plain-roundtrip", "server cookie with key lengths %d/%d does not round-trip: %v", len(sc.S2C), len(sc.C2S), err)
				return
			}
			// the same variable, changed and encoded again: the second encoding is of the new value
			sc.Algo++
			if len(sc.S2C) > 0 {
				sc.S2C[0] ^= 0xff
			}
			if err := sc2.Decode(sc.Encode()); err != nil || sc2.Algo != sc.Algo || !bytes.Equal(sc2.S2C, sc.S2C) || !bytes.Equal(sc2.C2S, sc.C2S) {
				fail("cookie/plain-roundtrip", "a server cookie changed after its first encoding does not round-trip: %v", err)
				return
			}
			key := nw.prov.Current()
			ec, err := sc.EncryptWithNonce(key.Value, key.ID)
			if err != nil {
				fail("cookie/seal", "%v", err)
				return
			}
			var ec2 ntske.EncryptedServerCookie
			if err := ec2.Decode(ec.Encode()); err != nil || ec2.ID != ec.ID || !bytes.Equal(ec2.Nonce, ec.Nonce) || !bytes.Equal(ec2.Ciphertext, ec.Ciphertext) {
				fail("cookie/sealed-roundtrip", "sealed cookie does not round-trip: %v", err)
				return
			}
			sc3, err := ec2.Decrypt(key.Value)
			if err != nil || sc3.Algo != sc.Algo || !bytes.Equal(sc3.S2C, sc.S2C) || !bytes.Equal(sc3.C2S, sc.C2S) {
				fail("cookie/open", "sealed cookie opens to something else: %v", err)
				return
			}
			other := append([]byte(nil), key.Value...)
			other[0] ^= 1
			if _, err := ec2.Decrypt(other); err == nil {
				fail("cookie/other-key", "sealed cookie opens under another key")
				return
			}
		}
		// NTS extension fields through the project's encoder and decoder
		dirty := make([]byte, 4096)
		for k := 0; k < 8 && r.Violation() == nil; k++ {
			ncook := 1 + tp.Intn(8, "ncook")
			// (cookies of foreign servers need not be a multiple of four bytes long: the encoder pads)
			ck := make([]byte, []int{124, 100, 104, 64, 101, 102, 103, 61, 17, 24, 20, 21, 28, 32}[tp.Intn(14, "nck")])
			padded := (len(ck) + 3) &^ 3
			var cookies [][]byte
			for i := 0; i < ncook; i++ {
				c := append([]byte(nil), ck...)
				rand.Read(c)
				cookies = append(cookies, c)
			}
			key := make([]byte, 32)
			rand.Read(key)
			data := ntske.Data{C2sKey: key, S2cKey: key, Cookie: cookies}
			if 48+36+8*(4+padded)+40 > nts.MaxPacketLen {
				continue // does not fit the encoder's buffer (cookies longer than this project's, all eight fields)
			}
			req, uid := nts.NewRequestPacket(data)
			// (every other packet is encoded into a buffer that is reused and still holds an older,
			// longer packet - as the clients' and listeners' buffers do)
			buf := make([]byte, 48)
			if k%2 == 1 {
				for i := range dirty {
					dirty[i] = 0xA5
				}
				buf = dirty[:48]
				for i := range buf {
					buf[i] = 0
				}
			}
			nts.EncodePacket(&buf, &req)
			var dec nts.Packet
			if err := nts.DecodePacket(&dec, buf); err != nil {
				fail("nts/decode-own-request", "%v", err)
				return
			}
			if !bytes.Equal(dec.UniqueID.ID, uid) || len(dec.Cookies) != 1 || len(dec.Cookies[0].Cookie) != padded || !bytes.Equal(dec.Cookies[0].Cookie[:len(ck)], cookies[0]) || len(dec.CookiePlaceholders) != 8-ncook {
				fail("nts/kinds", "request with %d pooled cookies of %d bytes decodes to %d cookies / %d placeholders", ncook, len(ck), len(dec.Cookies), len(dec.CookiePlaceholders))
				return
			}
			// the wire, walked independently: identifier, cookie, placeholders, authenticator, all aligned
			{
				var kinds []uint16
				for _, f := range ntsWalk(buf) {
					if f.off%4 != 0 || len(f.body)%4 != 0 {
						fail("nts/alignment", "request with a %d-byte cookie: field %#04x at offset %d with a %d-byte body is not 4-byte aligned", len(ck), f.typ, f.off, len(f.body))
						return
					}
					kinds = append(kinds, f.typ)
					if f.typ == 0x0204 && len(f.body) == padded {
						for _, x := range f.body[len(ck):] {
							if x != 0 {
								fail("nts/padding", "request with a %d-byte cookie: the cookie field's padding is %x, not zeros", len(ck), f.body[len(ck):])
								return
							}
						}
					}
				}
				want := []uint16{0x0104, 0x0204}
				for i := 0; i < 8-ncook; i++ {
					want = append(want, 0x0304)
				}
				want = append(want, 0x0404)
				if fmt.Sprint(kinds) != fmt.Sprint(want) {
					fail("nts/kinds-on-wire", "request with %d pooled cookies of %d bytes carries fields %x, want %x", ncook, len(ck), kinds, want)
					return
				}
				if len(ck)%4 != 0 {
					r.Probe("unaligned-cookie-request")
				}
			}
			if err := nts.ProcessRequest(buf, key, &dec); err != nil {
				fail("nts/authenticate-own-request", "%v", err)
				return
			}
			// a foreign client's request with an extension field of a type unknown here in front of
			// the cookie: skipped, everything else decodes and authenticates as before
			if len(ck)%4 == 0 {
				c08UnknownField = make([]byte, []int{4, 12, 24, 32, 60}[tp.Intn(5, "unklen")])
				rand.Read(c08UnknownField)
				raw := c08RawNTSRequest(make([]byte, 48), cookies[0], 8-ncook, key)
				c08UnknownField = nil
				var dx nts.Packet
				if err := nts.DecodePacket(&dx, raw); err != nil {
					fail("nts/unknown-field", "a request with an unknown extension field does not decode: %v", err)
					return
				}
				if len(dx.Cookies) != 1 || !bytes.Equal(dx.Cookies[0].Cookie, cookies[0]) || len(dx.CookiePlaceholders) != 8-ncook || len(dx.UniqueID.ID) != 32 {
					fail("nts/unknown-field", "a request with an unknown extension field decodes to %d cookies / %d placeholders", len(dx.Cookies), len(dx.CookiePlaceholders))
					return
				}
				if err := nts.ProcessRequest(raw, key, &dx); err != nil {
					fail("nts/unknown-field", "a request with an unknown extension field does not authenticate: %v", err)
					return
				}
				r.Probe("unknown-extension-field-skipped")
			}
			nresp := 1 + tp.Intn(7, "nresp")
			if len(ck)%4 != 0 {
				// responses are only ever built by this project's server from its own cookies, whose
				// length is a multiple of four (NewResponsePacket sizes its buffer without padding)
				continue
			}
			// (a response may answer more fields than this project's client ever asks for: up to
			// fourteen cookies, which takes the packet beyond the usual 1280 bytes)
			if tp.Bool(1, 4, "many-cookies") {
				nresp = 9 + tp.Intn(6, "nresp-many")
				for len(cookies) < nresp {
					c := append([]byte(nil), ck...)
					rand.Read(c)
					cookies = append(cookies, c)
				}
				r.Probe("response-beyond-usual-packet-size")
			}
			resp := nts.NewResponsePacket(cookies[:min(nresp, len(cookies))], key, uid)
			rb := make([]byte, 48)
			nts.EncodePacket(&rb, &resp)
			var dr nts.Packet
			if err := nts.DecodePacket(&dr, rb); err != nil {
				fail("nts/decode-own-response", "%v", err)
				return
			}
			var f ntske.Fetcher
			if err := nts.ProcessResponse(rb, key, &f, &dr, uid); err != nil {
				fail("nts/authenticate-own-response", "%v", err)
				return
			}
			got := f.VerifData().Cookie
			if len(got) != min(nresp, len(cookies)) {
				fail("nts/response-cookies", "response sealed %d cookies, %d came out", min(nresp, len(cookies)), len(got))
				return
			}
			for i := range got {
				if len(got[i]) != padded || !bytes.Equal(got[i][:len(ck)], cookies[i]) {
					fail("nts/response-cookies", "cookie %d differs after the round trip", i)
					return
				}
			}
		}
		// NTS-KE records: the project's Pack against ReadData
		{
			var m ntske.ExchangeMsg
			m.AddRecord(ntske.NextProto{NextProto: ntske.NTPv4})
			m.AddRecord(ntske.Algorithm{Algo: []uint16{ntske.AES_SIV_CMAC_256}})
			srvName := fmt.Sprintf("10.%d.%d.1", idx%256, tp.Intn(256, "ip"))
			port := uint16((idx*64 + 17) % 65536)
			m.AddRecord(ntske.Server{Addr: []byte(srvName)})
			m.AddRecord(ntske.Port{Port: port})
			var cks [][]byte
			for i := 0; i < 1+tp.Intn(8, "kecook"); i++ {
				c := make([]byte, tp.Intn(301, "kecl"))
				rand.Read(c)
				cks = append(cks, c)
				m.AddRecord(ntske.Cookie{Cookie: c})
			}
			m.AddRecord(ntske.End{})
			b, err := m.Pack()
			if err != nil {
				fail("ke/pack", "%v", err)
				return
			}
			d, err := c14Decode(b.Bytes())
			if err != nil || d.Server != srvName || d.Port != port || d.Algo != ntske.AES_SIV_CMAC_256 || len(d.Cookie) != len(cks) {
				fail("ke/records-roundtrip", "packed records decode to server %q port %d algo %d cookies %d: %v", d.Server, d.Port, d.Algo, len(d.Cookie), err)
				return
			}
			for i := range cks {
				if !bytes.Equal(d.Cookie[i], cks[i]) {
					fail("ke/records-roundtrip", "cookie %d differs", i)
					return
				}
			}
		}
		r.Probe("codecs-checked")
	}

	w.goSafe("driver", func() {
		defer r.Finish()
		for cur = 0; cur < 6 && r.Violation() == nil; cur++ {
			if r.Sleep(fmt.Sprintf("gap:%d", cur), w.cli.Node, 50*time.Millisecond).Killed {
				return
			}
			w.measureIP(nw.cl, 200*time.Millisecond)
		}
		if monErr != "" {
			fail("wire/monitor", "%s", monErr)
			return
		}
		segmentation()
		if r.Violation() == nil {
			codecs()
		}
		if r.Violation() == nil {
			// several key-exchange handlers pack their messages at the same time (one goroutine per
			// connection in the servers), preempted between the statements of the record packer:
			// each message still decodes to what went into it
			r.YieldsOn, r.YieldNum, r.YieldDen = true, 1, 1
			npack, finished := 2+tp.Intn(3, "packers"), 0
			for g := 0; g < npack; g++ {
				g := g
				w.goSafe(fmt.Sprintf("packer%d", g), func() {
					defer func() { finished++ }()
					for it := 0; it < 3 && r.Violation() == nil; it++ {
						var m ntske.ExchangeMsg
						m.AddRecord(ntske.NextProto{NextProto: ntske.NTPv4})
						m.AddRecord(ntske.Algorithm{Algo: []uint16{ntske.AES_SIV_CMAC_256}})
						srv := fmt.Sprintf("10.%d.%d.%d", g+1, it+1, idx%250)
						port := uint16(1000*g + 10*it + 7)
						m.AddRecord(ntske.Server{Addr: []byte(srv)})
						m.AddRecord(ntske.Port{Port: port})
						var cks [][]byte
						for i := 0; i < 3; i++ {
							c := bytes.Repeat([]byte{byte(16*g + 4*it + i + 1)}, 40+8*g)
							cks = append(cks, c)
							m.AddRecord(ntske.Cookie{Cookie: c})
						}
						m.AddRecord(ntske.End{})
						b, err := m.Pack()
						if err != nil {
							fail("ke/pack", "%v", err)
							return
						}
						d, err := c14Decode(b.Bytes())
						ok := err == nil && d.Server == srv && d.Port == port && len(d.Cookie) == len(cks)
						for i := 0; ok && i < len(cks); i++ {
							ok = bytes.Equal(d.Cookie[i], cks[i])
						}
						if !ok {
							fail("ke/concurrent-pack", "message packed by handler %d while %d others pack theirs decodes to server %q port %d, %d cookies (%v): not what went into it", g, npack-1, d.Server, d.Port, len(d.Cookie), err)
							return
						}
					}
				})
			}
			for k := 0; k < 200 && finished < npack; k++ {
				if r.Sleep(fmt.Sprintf("packwait:%d", k), w.cli.Node, time.Millisecond).Killed {
					return
				}
			}
			r.YieldsOn = false
			r.Probe("concurrent-packers")
		}
		if monErr != "" && r.Violation() == nil {
			fail("wire/monitor", "%s", monErr)
		}
	})
	reason := r.Loop(5_000_000, 0)
	r.SetVT()
	r.Drain()
	if reason != "" && r.Violation() == nil {
		r.Fail("harness", "c14/"+reason, "scheduler stopped: %s pending=%v", reason, r.IdlePending)
	}
	r.Count("segmentation-cases", int64(segCases))
	r.FaultN("stream-segmented-into-short-reads", int64(segCases))
	r.Count("datagrams-monitored", int64(monitored))
	_ = netip.Addr{}
	return map[string]any{"segmentation_cases": segCases, "through_tls": segTLS, "datagrams_monitored": monitored, "messages": notes}
}

func head3(c []int) []int {
	if len(c) > 3 {
		return c[:3]
	}
	return c
}

func init() {
	simcore.Registry["C14"] = &simcore.Spec{
		World:      c14World,
		NonTrivial: func(r *simcore.Run) bool { return r.Counts["segmentation-cases"] >= 2 },
	}
}
