//go:build go1.25

package worlds

import (
	"bytes"
	"fmt"
	"testing"
	"time"

	"example.com/scion-time/net/nts"

	"verif.local/sim/simcore"
	"verif.local/sim/simnet"
)

// W-nts for C11: histories of successful and lost exchanges (loss bursts of every
// length on requests and on responses), idle gaps of up to five virtual days
// (server key rotation and retirement), re-keying when the pool runs dry. A wire
// monitor with its own RFC 8915 field walker judges every request and every
// reply; the pool is tracked from the wire and cross-checked with the client.

// c11MaxLen is "the maximum NTS packet size" of the statement: the limit the implementation
// declares for itself.
const c11MaxLen = nts.MaxPacketLen

func c11World(t *testing.T, r *simcore.Run) any {
	tp := r.Tape
	var tr ntsTransport
	if r.Index%4 == 1 {
		tr = ntsSCIONTransport{newNTSSCIONWorld(r, 2)}
		r.Probe("transport:scion")
	} else {
		ipDrawFamily(r)
		tr = ntsIPTransport{newNTSWorld(r, 2)}
	}
	net := tr.network()
	nattempts := 6 + tp.Intn(40, "attempts")
	// loss script: bursts
	dropReq := make([]bool, nattempts)
	dropResp := make([]bool, nattempts)
	lossy := tp.Bool(3, 4, "lossy")
	maxBurst := 1 + tp.Intn(10, "maxburst")
	// (until fix: commit "make the NTS packet buffer large enough for eight cookies" pool level 1
	// was known finding F13; bursts that reach it are now drawn like any other)
	avoidLevel1 := !tp.Bool(4, 5, "allow-level-1")
	if lossy {
		for i := 0; i < nattempts; {
			if tp.Bool(1, 3, "burst?") {
				n := 1 + tp.Intn(maxBurst, "burstlen")
				if avoidLevel1 && n > 6 {
					n = 6
				}
				onReq := tp.Bool(1, 2, "burst-on-req")
				for j := 0; j < n && i < nattempts; j++ {
					if onReq {
						dropReq[i] = true
					} else {
						dropResp[i] = true
					}
					i++
				}
				i++ // at least one good exchange after a burst
			} else {
				i++
			}
		}
	}
	gaps := tp.Bool(1, 3, "daygaps")
	issuedAt := map[string]time.Time{} // cookie -> when the server handed it out
	replays := tp.Bool(1, 2, "replays")
	restarts := tp.Bool(1, 3, "restarts")
	// the server process is restarted now and then: its keys are gone, every cookie the client
	// holds is worthless, and the client has to find its way back (drain its pool, re-key)
	srvRestarts := tp.Bool(1, 4, "srvrestarts")
	staleUntilRekey := false // the client may still hold cookies of the server's previous life
	cleanSinceRestart := 0   // attempts since then in which nothing was lost
	var pastResponses [][]byte
	cur := -1 // attempt index
	seenCookies := map[string]int{}
	type reqInfo struct {
		d        *simnet.Datagram
		ncookies int
		nph      int
		uid      []byte
		cookie   []byte
	}
	var lastReq *reqInfo
	var lastReply *simnet.Datagram
	replyCookies := 0
	// The client's own kernel transmit timestamp goes missing (it falls back to a clock reading
	// a poll's millisecond later) while the reply is back within that millisecond, and arrives
	// twice: the exchange authenticates and then fails on its timestamps - what it may have
	// stored of the reply's cookies it may store once.
	txMissDup := make([]bool, nattempts)
	if tp.Bool(1, 3, "txmissdup-run") {
		for i := range txMissDup {
			txMissDup[i] = !dropReq[i] && !dropResp[i] && tp.Bool(1, 6, "txmissdup")
		}
	}
	missPlan := net.Plan
	missPlan.TxStampMissing = 1000
	net.PlanFor = func(d *simnet.Datagram, at *simnet.UDPConn) *simnet.FaultPlan {
		if cur >= 0 && txMissDup[cur] && tr.isRequest(d) {
			return &missPlan
		}
		return nil
	}
	net.Intercept = func(d *simnet.Datagram) ([]simnet.Route, bool) {
		if cur < 0 {
			return nil, false
		}
		if txMissDup[cur] && tr.lastHopToClient(d) {
			pastResponses = append(pastResponses, append([]byte(nil), d.Payload...))
			dup := net.NewDatagram(d.Src, d.Dst, append([]byte(nil), d.Payload...), "reply duplicated")
			r.Fault("client-tx-stamp-missing+reply-duplicated")
			return []simnet.Route{{D: d, Delay: 40 * time.Microsecond}, {D: dup, Delay: 40 * time.Microsecond}}, true
		}
		if tr.isRequest(d) && dropReq[cur] {
			r.Fault("request-lost")
			return nil, true
		}
		if tr.isReply(d) && dropResp[cur] {
			r.Fault("response-lost")
			pastResponses = append(pastResponses, append([]byte(nil), d.Payload...))
			return nil, true
		}
		if tr.lastHopToClient(d) {
			// a late or replayed genuine response to an earlier request of this session reaches
			// the client ahead of the genuine one (over SCION the router relays the bytes
			// unchanged, so a recorded reply can be replayed on the last hop as it is)
			defer func() { pastResponses = append(pastResponses, append([]byte(nil), d.Payload...)) }()
			if replays && lastReq != nil && tp.Bool(1, 8, "reflect?") {
				// the client's own request comes back to it (reflected on the path, the reply's
				// addressing) ahead of the genuine reply: its clear cookie and placeholder fields
				// are nobody's to keep
				if wrapped := tr.rewrap(d, append([]byte(nil), tr.ntp(lastReq.d)...)); wrapped != nil {
					refl := net.NewDatagram(d.Src, d.Dst, wrapped, "request reflected")
					r.Fault("request-reflected-to-the-client")
					return []simnet.Route{{D: refl, Delay: 40 * time.Microsecond}, {D: d, Delay: 120 * time.Microsecond}}, true
				}
			}
			if replays && len(pastResponses) > 0 && tp.Bool(1, 3, "replay?") {
				old := net.NewDatagram(d.Src, d.Dst, pastResponses[tp.Intn(len(pastResponses), "which")], "replayed response")
				r.Fault("stale-response-replayed")
				return []simnet.Route{{D: old, Delay: 40 * time.Microsecond}, {D: d, Delay: 120 * time.Microsecond}}, true
			}
		}
		return nil, false
	}
	level := 0 // pool level at the start of the attempt, as the monitor infers it
	net.OnSend = func(d *simnet.Datagram) {
		if !tr.isRequest(d) && !tr.isReply(d) {
			return
		}
		pkt := tr.ntp(d) // the NTP/NTS packet (the SCION payload, over SCION)
		fields := ntsWalk(pkt)
		switch {
		case tr.isRequest(d):
			ri := &reqInfo{d: d}
			var ckLen int
			for _, f := range fields {
				switch f.typ {
				case 0x0104:
					ri.uid = f.body
				case 0x0204:
					ri.ncookies++
					if ri.cookie == nil {
						ri.cookie = f.body
						ckLen = len(f.body)
					}
				case 0x0304:
					ri.nph++
					if len(f.body) != ckLen {
						r.Fail("C11", "request/placeholder-length", "placeholder body of %d bytes next to a cookie of %d bytes", len(f.body), ckLen)
					}
				}
				if f.off%4 != 0 || len(f.body)%4 != 0 {
					r.Fail("C11", "request/alignment", "extension field %#04x at offset %d with body %d is not 4-byte aligned", f.typ, f.off, len(f.body))
				}
			}
			lastReq = ri
			if ri.ncookies != 1 {
				r.Fail("C11", "request/cookie-fields", "request at pool level %d carries %d cookie fields and %d placeholder fields (want exactly 1 cookie, %d placeholders)",
					level, ri.ncookies, ri.nph, 8-level)
				return
			}
			if ri.nph != 8-level {
				r.Fail("C11", "request/placeholder-count", "request at pool level %d carries %d placeholders (want %d)", level, ri.nph, 8-level)
				return
			}
			if len(pkt) > c11MaxLen {
				r.Fail("C11", "request/too-long", "request at pool level %d is %d bytes", level, len(pkt))
				return
			}
			if n := seenCookies[string(ri.cookie)]; n > 0 {
				r.Fail("C11", "request/cookie-reused", "the same cookie was sent in two requests")
				return
			}
			seenCookies[string(ri.cookie)]++
			r.Probe(fmt.Sprintf("request-at-level-%d", level))
		case tr.isReply(d):
			lastReply = d
			if len(pkt) > c11MaxLen {
				r.Fail("C11", "reply/too-long", "reply is %d bytes", len(pkt))
				return
			}
			if lastReq == nil || tr.requestOf(d) != lastReq.d.ID {
				return // reply to a duplicate or older request: not judged here
			}
			data := tr.fetcher().VerifData()
			inner, ok := ntsVerify(pkt, data.S2cKey)
			if !ok {
				r.Fail("C11", "reply/not-authentic", "the requester cannot authenticate the reply under its server-to-client key")
				return
			}
			if !bytes.Equal(uidOf(pkt), lastReq.uid) {
				r.Fail("C11", "reply/unique-id", "reply does not echo the request's unique identifier")
				return
			}
			n := 0
			batch := map[string]bool{}
			for _, f := range inner {
				if f.typ != 0x0204 {
					continue
				}
				n++
				if batch[string(f.body)] || seenCookies[string(f.body)] > 0 {
					r.Fail("C11", "reply/cookie-not-fresh", "reply hands out a cookie that was handed out or used before")
					return
				}
				batch[string(f.body)] = true
				issuedAt[string(f.body)] = time.Now()
				sc, _, err := openCookieWith(tr.provider(), f.body)
				if err != nil {
					r.Fail("C11", "reply/cookie-does-not-open", "a fresh cookie does not open under a currently valid server key: %v", err)
					return
				}
				if !bytes.Equal(sc.C2S, data.C2sKey) || !bytes.Equal(sc.S2C, data.S2cKey) {
					r.Fail("C11", "reply/cookie-keys", "a fresh cookie opens to other session keys")
					return
				}
				// (sealed under the key the provider currently hands out: usable for two more days)
				if d, ok := cookieUsableFor(tr.provider(), f.body); !ok || d < 48*time.Hour-time.Minute {
					r.Fail("C11", "reply/cookie-lifetime", "a cookie handed out now can be opened for only %v more (the statement of C12 promises two days)", d)
					return
				}
			}
			want := lastReq.ncookies + lastReq.nph
			if n != want {
				// "as many as fit": fewer are acceptable only if one more would not fit
				perCookie := 4 + len(lastReq.cookie)
				if !(n < want && len(pkt)+perCookie > c11MaxLen) {
					r.Fail("C11", "reply/cookie-count", "reply to a request for %d cookies carries %d (reply length %d)", want, n, len(pkt))
					return
				}
			}
			replyCookies = n
			r.Probe("reply-verified")
		}
	}
	ok, failed, rekeys := 0, 0, 0
	var hist []string
	tr.spawn("driver", func() {
		defer r.Finish()
		for i := 0; i < nattempts && r.Violation() == nil; i++ {
			gap := time.Duration(tp.Range(int64(100*time.Millisecond), int64(4*time.Second), "gap"))
			if gaps && tp.Bool(1, 6, "daygap") {
				gap = time.Duration(tp.Range(int64(time.Hour), int64(5*24*time.Hour), "days"))
				r.Fault("idle-gap-days")
			}
			if gap >= 24*time.Hour && tp.Bool(2, 3, "other-traffic") {
				// the client is idle; other clients are not: their requests make the server renew
				// its key every day
				for left, k := gap, 0; left > 0; k++ {
					step := min(left, 12*time.Hour)
					if r.Sleep(fmt.Sprintf("gap:%d.%d", i, k), tr.clientNode(), step).Killed {
						return
					}
					left -= step
					tr.provider().Current()
				}
				r.Probe("server-busy-while-client-idle")
			} else if r.Sleep(fmt.Sprintf("gap:%d", i), tr.clientNode(), gap).Killed {
				return
			}
			cur = i
			// (more often after a long idle gap: the host was down, or the service is started again;
			// the key exchange that follows then meets a server whose keys have rotated meanwhile)
			if (restarts && tp.Bool(1, 20, "restart?")) || (gaps && gap >= time.Hour && tp.Bool(1, 2, "restart-after-gap?")) {
				// the client process is restarted: nothing of its session survives (there is no
				// durable state), the next attempt performs a complete key exchange
				tr.fetcher().VerifForget()
				r.Fault("client-restart")
			}
			if srvRestarts && tp.Bool(1, 25, "srvrestart?") {
				tr.provider().VerifRestart()
				staleUntilRekey, cleanSinceRestart = true, 0
				r.Fault("server-restart")
			}
			before := tr.fetcher().VerifPoolLen()
			level = before
			ke0 := tr.keyExchanges()
			if before == 0 {
				level = 8 // the client re-keys first; the project's server issues eight cookies
			}
			lastReq, lastReply, replyCookies = nil, nil, 0
			err := tr.measure(300 * time.Millisecond)
			after := tr.fetcher().VerifPoolLen()
			stale := staleUntilRekey
			if tr.keyExchanges() != ke0 {
				staleUntilRekey = false
				rekeys++
				r.Probe("re-keyed")
				// the cookies of a key exchange are sealed under the provider's current key as well
				for _, ck := range tr.fetcher().VerifData().Cookie {
					issuedAt[string(ck)] = time.Now()
					if d, ok := cookieUsableFor(tr.provider(), ck); ok && d < 48*time.Hour-time.Hour {
						r.Fail("C11", "key-exchange/cookie-lifetime", "a cookie issued by the key exchange just now can be opened for only %v more", d)
						return
					}
				}
			}
			line := fmt.Sprintf("attempt %d: pool %d -> %d, dropReq=%v dropResp=%v err=%v", i, before, after, dropReq[i], dropResp[i], err != nil)
			hist = append(hist, line)
			r.Log("%s", line)
			if err == nil {
				ok++
				r.Probe("exchange-ok")
				r.Probe("exchange-ok:" + tr.name())
				if after < level {
					r.Fail("C11", "pool/shrunk", "%s: a successful exchange shrank the pool from %d to %d", line, level, after)
					return
				}
				if after > 8 {
					r.Fail("C11", "pool/over-eight", "%s: pool holds %d cookies", line, after)
					return
				}
				if after != min(8, level-1+replyCookies) {
					r.Fail("C11", "pool/accounting", "%s: pool %d after a reply with %d cookies at level %d", line, after, replyCookies, level)
					return
				}
				if !dropReq[i] && !dropResp[i] && level == 8 && after != 8 {
					r.Fail("C11", "pool/not-eight-loss-free", "%s: loss-free exchange at a full pool left %d cookies", line, after)
					return
				}
				if level < 8 {
					r.Probe("pool-restored")
					if after != 8 && level-1+replyCookies >= 8 {
						r.Fail("C11", "pool/not-restored", "%s: pool not back to eight", line)
						return
					}
				}
				if stale {
					r.Probe("recovered-after-server-restart")
				}
			} else {
				failed++
				if after > 8 {
					r.Fail("C11", "pool/over-eight", "%s: pool holds %d cookies after a failed exchange", line, after)
					return
				}
				if txMissDup[i] {
					// failed on its timestamps (transmit time read after the reply had arrived)
					r.Probe("failed-on-timestamps-with-duplicated-reply")
					continue
				}
				if stale && !dropReq[i] && !dropResp[i] {
					// bounded liveness: eight worthless cookies at most, then a key exchange
					cleanSinceRestart++
					if cleanSinceRestart > 10 && !gaps {
						r.Fail("C11", "recovery/after-server-restart", "%s: %d attempts without loss after the server's restart and the client is still failing", line, cleanSinceRestart)
						return
					}
					continue
				}
				if stale {
					continue
				}
				if !dropReq[i] && !dropResp[i] && lastReq != nil && lastReply == nil && !gaps {
					r.Fail("C11", "server/no-reply", "%s: an authenticated request that was not lost got no reply", line)
					return
				}
				if !dropReq[i] && !dropResp[i] && lastReq != nil && lastReply == nil && gaps {
					// after idle days: a cookie is good for two days from the moment it was handed out
					if t0, known := issuedAt[string(lastReq.cookie)]; known && time.Since(t0) < 48*time.Hour-time.Minute {
						r.Fail("C11", "server/no-reply", "%s: the request's cookie was handed out %v ago (less than two days), the request was not lost, and there is no reply", line, time.Since(t0))
						return
					}
				}
				if !dropReq[i] && !dropResp[i] && !gaps && lastReq != nil {
					r.Fail("C11", "client/rejected-good-reply", "%s: nothing was lost, yet the exchange failed", line)
					return
				}
			}
		}
	})
	reason := r.Loop(3_000_000, 0)
	r.SetVT()
	r.Drain()
	if reason != "" && r.Violation() == nil {
		r.Fail("harness", "c11/"+reason, "scheduler stopped: %s pending=%v", reason, r.IdlePending)
	}
	r.Count("attempts", int64(len(hist)))
	r.Count("exchanges-ok", int64(ok))
	if len(hist) > 14 {
		hist = hist[:14]
	}
	return map[string]any{"attempts": nattempts, "ok": ok, "failed": failed, "rekeys": rekeys, "history": hist}
}

func init() {
	simcore.Registry["C11"] = &simcore.Spec{
		World:      c11World,
		NonTrivial: func(r *simcore.Run) bool { return r.Counts["exchanges-ok"] >= 2 },
	}
}
