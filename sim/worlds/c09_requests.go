//go:build go1.25

package worlds

import (
	"crypto/rand"
	"fmt"
	"net/netip"
	"testing"
	"time"

	"example.com/scion-time/net/ntp"
	"example.com/scion-time/net/nts"
	"example.com/scion-time/net/ntske"

	"verif.local/sim/simcore"
	"verif.local/sim/simnet"
)

// W-ntp-ip for C09: 8 real runIPServer listeners on one port; a scripted sender
// fires crafted datagrams at them; the simulated network counts what comes back
// for each. The first-byte x length-class x trailer-class space is enumerated
// completely across the first runs of a batch; later runs sample the rest.

var c09Lengths = []int{0, 1, 47, 48, 49, 50, 51, 52, 75, 76, 100, 1024, 2047, 2048}
var c09Trailers = []string{"zeros", "random", "ff", "nts-valid", "nts-bitflip"}

const c09CasesPerRun = 96

// c09Total is the size of the enumerated space.
func c09Total() int { return 256 * len(c09Lengths) * len(c09Trailers) }

type c09Case struct {
	first   byte
	length  int
	trailer string
	payload []byte
	expect  int // replies the statement demands
	srcPort uint16
	note    string
}

// c09ValidNTS builds a well-formed, authenticated NTS request around hdr using the
// project's own encoder and a cookie sealed under the server's current key.
func c09ValidNTS(hdr []byte, prov *ntske.Provider) []byte {
	c2s, s2c := make([]byte, 32), make([]byte, 32)
	rand.Read(c2s)
	rand.Read(s2c)
	key := prov.Current()
	sc := ntske.ServerCookie{Algo: ntske.AES_SIV_CMAC_256, C2S: c2s, S2C: s2c}
	var cookies [][]byte
	for i := 0; i < 8; i++ {
		ec, err := sc.EncryptWithNonce(key.Value, key.ID)
		if err != nil {
			panic(err)
		}
		cookies = append(cookies, ec.Encode())
	}
	data := ntske.Data{C2sKey: c2s, S2cKey: s2c, Cookie: cookies, Algo: ntske.AES_SIV_CMAC_256}
	req, _ := nts.NewRequestPacket(data)
	buf := append([]byte(nil), hdr[:48]...)
	nts.EncodePacket(&buf, &req)
	return buf
}

// c09ValidNTSOfLength: a correctly sealed request (one cookie of this project's server, no
// placeholders) whose unique identifier is as long as it takes to reach total bytes.
func c09ValidNTSOfLength(hdr []byte, prov *ntske.Provider, total int) []byte {
	c2s, s2c := make([]byte, 32), make([]byte, 32)
	rand.Read(c2s)
	rand.Read(s2c)
	key := prov.Current()
	sc := ntske.ServerCookie{Algo: ntske.AES_SIV_CMAC_256, C2S: c2s, S2C: s2c}
	ec, _ := sc.EncryptWithNonce(key.Value, key.ID)
	c08UIDLen = 32
	base := len(c08RawNTSRequest(hdr, ec.Encode(), 0, c2s))
	c08UIDLen = 32 + (total-base)/4*4
	defer func() { c08UIDLen = 32 }()
	if c08UIDLen < 32 {
		c08UIDLen = 32
	}
	return c08RawNTSRequest(hdr, ec.Encode(), 0, c2s)
}

// c09Expect is the statement's predicate.
func c09Expect(p []byte, trailerValid bool) int {
	if len(p) < 48 {
		return 0
	}
	li := p[0] >> 6
	vn := (p[0] >> 3) & 7
	mode := p[0] & 7
	if li != 0 && li != 3 {
		return 0
	}
	if !((vn >= 2 && vn <= 4 && mode == 3) || (vn == 1 && mode == 0)) {
		return 0
	}
	if len(p) > 48 && !trailerValid {
		return 0
	}
	return 1
}

func c09World(t *testing.T, r *simcore.Run) any {
	tp := r.Tape
	// which slice of the enumerated space does this run cover? The space is enumerated twice:
	// runs 0..nEnumRuns-1 against the IP listeners, runs nEnumRuns..2*nEnumRuns-1 against the
	// SCION listeners (the same payloads inside SCION/UDP packets handed over by a border
	// router); of the sampled runs after that every third is over SCION.
	idx := int(r.Index)
	total := c09Total()
	nEnumRuns := (total + c09CasesPerRun - 1) / c09CasesPerRun
	overSCION, srvAuth, viaEndhost := false, false, false
	switch {
	case idx >= nEnumRuns && idx < 2*nEnumRuns:
		overSCION = true
		idx -= nEnumRuns
	case idx >= 2*nEnumRuns:
		overSCION = idx%3 == 1
	}
	prov := ntske.NewProvider()
	var w *ipWorld
	var sw *scionWorld
	var net *simnet.Net
	var srvHost *simnet.Host
	var cliNode *simcore.Node
	var spawn func(string, func())
	var segs []int
	var rtr netip.AddrPort
	if overSCION {
		scDrawFamily(r)
		sw = newSCIONWorld(r, time.Duration(tp.Range(0, int64(time.Hour), "srvoff")), 1)
		r.ProcDelayMaxNs = []int64{0, 20000}[tp.Intn(2, "pdelay")]
		srvAuth = tp.Bool(1, 2, "srvauth") // listeners with a DRKey fetcher (packet authentication on)
		sw.startServers(4, srvAuth, 0, prov, false)
		net, srvHost, cliNode, spawn = sw.net, sw.srv, sw.cli.Node, sw.goSafe
		rtr = netip.AddrPortFrom(netip.MustParseAddr(scRouterIP(0)), scRouterPort)
		if tp.Bool(2, 3, "path") {
			segs = []int{2 + tp.Intn(5, "h")}
		}
		r.Probe("transport:scion")
	} else {
		ipDrawFamily(r)
		w = newIPWorld(r, time.Duration(tp.Range(0, int64(time.Hour), "srvoff")), 0)
		r.ProcDelayMaxNs = []int64{0, 20000}[tp.Intn(2, "pdelay")]
		w.startListeners(8, prov)
		net, srvHost, cliNode, spawn = w.net, w.srv, w.cli.Node, w.goSafe
	}
	srvAddr := netip.AddrPortFrom(netip.MustParseAddr(ipSrvIP), ipPort)
	cliIP, atkIP := ipCliIP, ipAtkIP
	if overSCION {
		cliIP, atkIP = scCliIP, scAtkIP
		if tp.Bool(1, 3, "mixedfamily") {
			// the requesting host's address is of the other family than the server's
			cliIP = map[bool]string{true: "10.9.9.9", false: "fd00:9::9"}[scV6]
			r.Probe("mixed-address-families")
		}
	}
	withExt := 0 // bit 0: hop-by-hop, bit 1: end-to-end extension header on the next request
	udpLenZero := false
	// wrap puts an NTP payload on the wire towards the listeners
	wrap := func(payload []byte, srcIP string, srcPort uint16, note string) *simnet.Datagram {
		if overSCION {
			raw := buildSCION(scCliIA, scSrvIA, srcIP, scSrvIP, srcPort, scSvcPort, segs, 0, payload)
			if withExt == 0 && udpLenZero {
				// UDP length 0 ("the rest of the packet", as the decoder reads it): same payload,
				// same verdict
				if off := int(raw[5]) * 4; off+6 <= len(raw) {
					raw[off+4], raw[off+5] = 0, 0
					r.Probe("udp-length-field-zero")
				}
			}
			if withExt != 0 {
				// extension headers the listener has no use for change nothing: same replies, and
				// replies that are plain SCION/UDP again
				if x := scWithExtensions(parseSCION(raw), withExt&1 != 0, withExt&2 != 0); x != nil {
					raw = x
					r.Probe("request-with-extension-headers")
				}
			}
			// a border router hands a packet either to the service's own port or to the end-host
			// port 30041, where the server runs a listener of its own: both answer in place
			underlay := scSvcPort
			if viaEndhost {
				underlay = scEndhost
			}
			return net.NewDatagram(rtr, netip.AddrPortFrom(netip.MustParseAddr(scSrvIP), uint16(underlay)), raw, note)
		}
		return net.NewDatagram(netip.AddrPortFrom(netip.MustParseAddr(srcIP), srcPort), srvAddr, payload, note)
	}
	var cases []c09Case
	padTo := 0
	mk := func(first byte, length int, trailer string) c09Case {
		c := c09Case{first: first, length: length, trailer: trailer}
		hdr := make([]byte, 48)
		rand.Read(hdr[1:])
		hdr[0] = first
		valid := false
		switch {
		case length <= 48:
			c.payload = hdr[:length]
			c.trailer = "none"
		case trailer == "nts-valid" || trailer == "nts-bitflip":
			c.payload = c09ValidNTS(hdr, prov)
			if padTo > 0 && trailer == "nts-valid" {
				// a valid request of a chosen total length (the unique identifier takes up the
				// slack), up to exactly the size of the listener's receive buffer
				c.payload = c09ValidNTSOfLength(hdr, prov, padTo)
				c.length = len(c.payload)
				c.note = fmt.Sprintf("valid NTS request of %d bytes", len(c.payload))
			}
			valid = true
			if trailer == "nts-bitflip" {
				// flip one bit somewhere after the header: no longer a valid NTS request
				// (the authenticator field is the last 40 bytes of a request; the two bytes of
				// its own extension length are not covered by the AEAD and are not interpreted:
				// flipping them leaves the request valid, so they are not used here)
				authPos := len(c.payload) - 40
				pos := 48 + tp.Intn(len(c.payload)-48, "flip.pos")
				if pos == authPos+2 || pos == authPos+3 {
					pos = authPos + 4
				}
				c.payload[pos] ^= 1 << tp.Intn(8, "flip.bit")
				valid = false
				c.note = fmt.Sprintf("bit flipped at %d", pos)
			}
		default:
			c.payload = make([]byte, length)
			copy(c.payload, hdr)
			switch trailer {
			case "random":
				rand.Read(c.payload[48:])
			case "ff":
				for i := 48; i < length; i++ {
					c.payload[i] = 0xff
				}
			}
		}
		c.length = len(c.payload)
		c.expect = c09Expect(c.payload, valid)
		return c
	}
	mode := "enumerated"
	if idx < nEnumRuns {
		for k := idx * c09CasesPerRun; k < (idx+1)*c09CasesPerRun && k < total; k++ {
			first := byte(k % 256)
			rest := k / 256
			cases = append(cases, mk(first, c09Lengths[rest%len(c09Lengths)], c09Trailers[rest/len(c09Lengths)]))
		}
	} else {
		mode = "sampled"
		for k := 0; k < c09CasesPerRun; k++ {
			first := byte(tp.Intn(256, "first"))
			if tp.Bool(1, 2, "validish") {
				first = []byte{0x23, 0x1b, 0x13, 0xe3, 0x08, 0xdb}[tp.Intn(6, "vfirst")]
			}
			length := c09Lengths[tp.Intn(len(c09Lengths), "len")]
			if tp.Bool(1, 4, "rlen") {
				length = tp.Intn(2049, "rlen2")
			}
			padTo = 0
			if !overSCION && tp.Bool(1, 12, "nts-of-length") {
				padTo = []int{2048, 2044, 2040, 1280, 1284, 1400}[tp.Intn(6, "ntslen")]
				cases = append(cases, mk(0x23, padTo, "nts-valid"))
				padTo = 0
				r.Probe("valid-nts-request-of-chosen-length")
				continue
			}
			cases = append(cases, mk(first, length, c09Trailers[tp.Intn(len(c09Trailers), "trailer")]))
		}
	}

	// kernel timestamp trouble at the listeners (sampled runs): a missing or nanosecond-form
	// receive timestamp, a missing or late transmit timestamp - each request is still
	// answered exactly once
	if mode == "sampled" && tp.Bool(1, 2, "tsfaults") {
		srvPlan := net.Plan
		srvPlan.RxStampMissing, srvPlan.RxStampNS = uint64(tp.Intn(300, "rxmiss")), uint64(tp.Intn(300, "rxns"))
		if tp.Bool(1, 2, "txfaults") {
			srvPlan.TxStampMissing, srvPlan.TxStampLate = uint64(tp.Intn(200, "txmiss")), uint64(tp.Intn(100, "txlate"))
		}
		net.PlanFor = func(d *simnet.Datagram, at *simnet.UDPConn) *simnet.FaultPlan {
			if at != nil && at.Host() == srvHost {
				return &srvPlan
			}
			return nil
		}
	}

	// wire accounting: replies caused by each injected datagram
	type acct struct {
		c       *c09Case
		src     netip.AddrPort
		replies []*simnet.Datagram
	}
	byID := map[uint64]*acct{}
	byOrig := map[uint64]*acct{}
	net.OnSend = func(d *simnet.Datagram) {
		if d.SrcConn != nil && d.SrcConn.Host() == srvHost {
			if a := byID[d.Cause]; a != nil {
				a.replies = append(a.replies, d)
			} else if a := byOrig[d.Cause]; a != nil {
				a.replies = append(a.replies, d)
			}
		}
	}
	// the sender's sockets only collect
	if !overSCION {
		if _, err := net.Listen(hp(ipCliIP, 5000), false); err != nil {
			panic(err)
		}
	}
	dupRate := uint64(0)
	if mode == "sampled" {
		dupRate = uint64(tp.Intn(300, "dup"))
	}
	checked, answered := 0, 0
	var samples []string
	// sampled runs: the listeners have been up for a day or two when the requests arrive, so
	// their cookies are under the key before the current one (valid for three days)
	var keyAge time.Duration
	if mode == "sampled" {
		keyAge = []time.Duration{0, 0, 25 * time.Hour, 49 * time.Hour}[tp.Intn(4, "keyage")]
	}
	spawn("driver", func() {
		defer r.Finish()
		if keyAge > 0 {
			if r.Sleep("key-age", cliNode, keyAge).Killed {
				return
			}
			r.Probe("cookies-under-previous-key")
		}
		for i := range cases {
			c := &cases[i]
			if overSCION && i%12 == 0 {
				// a packet with an end-to-end extension carrying an authenticator option of an
				// unsupported length: dropped by a listener with packet authentication on, answered
				// (the option ignored) by one without; either way the requests that follow it are
				// judged on their own
				hdr := make([]byte, 48)
				hdr[0] = 0x23
				raw := c08SCIONPacket(tp, scSvcPort, segs, 12, -1, hdr)
				net.Inject(net.NewDatagram(rtr, netip.AddrPortFrom(netip.MustParseAddr(scSrvIP), scSvcPort), raw, "odd authenticator option"), 20*time.Microsecond)
				r.Fault("odd-authenticator-option")
				if r.Sleep(fmt.Sprintf("odd:%d", i), cliNode, time.Millisecond).Killed {
					return
				}
			}
			viaEndhost = overSCION && tp.Bool(1, 4, "via-endhost-port")
			withExt = 0
			if overSCION && tp.Bool(1, 5, "ext-headers") {
				withExt = 1 + tp.Intn(3, "which-ext")
			}
			udpLenZero = overSCION && tp.Bool(1, 6, "udp-length-zero")
			if viaEndhost {
				r.Probe("via-endhost-port")
			}
			c.srcPort = 5000
			if mode == "sampled" && tp.Bool(1, 3, "port") {
				c.srcPort = uint16(1 + tp.Intn(65535, "sport"))
			} else if tp.Bool(1, 4, "well-known-port") {
				// the decision to reply is a function of the payload, not of where it came from
				c.srcPort = []uint16{123, 4460, 30041, 1, 65535, 319, 320, 53}[tp.Intn(8, "wkport")]
				r.Probe("from-well-known-port")
			}
			src := netip.AddrPortFrom(netip.MustParseAddr(cliIP), c.srcPort)
			d := wrap(c.payload, cliIP, c.srcPort, "crafted")
			a := &acct{c: c, src: src}
			byID[d.ID] = a
			net.Inject(d, 50*time.Microsecond)
			copies := 1
			if dupRate > 0 && tp.Bool(dupRate, 1000, "dup?") {
				// the network duplicates the datagram: each copy gets its own single reply
				dd := wrap(append([]byte(nil), c.payload...), cliIP, c.srcPort, "crafted dup")
				dd.OrigID = d.ID
				byOrig[dd.ID] = a
				net.Inject(dd, time.Duration(50+tp.Intn(100, "dupdelay"))*time.Microsecond)
				copies = 2
				r.Fault("duplicate")
			}
			if r.Sleep(fmt.Sprintf("settle:%d", i), cliNode, 5*time.Millisecond).Killed {
				return
			}
			want := c.expect * copies
			if c.length > 2048 {
				want = 0
			}
			if len(a.replies) != want {
				r.Fail("C09", fmt.Sprintf("replies/%s", map[bool]string{true: "missing", false: "unexpected"}[len(a.replies) < want]),
					"first byte %#02x (LI %d, version %d, mode %d), length %d, trailer %s %s: %d repl(y/ies), statement demands %d",
					c.first, c.first>>6, (c.first>>3)&7, c.first&7, c.length, c.trailer, c.note, len(a.replies), want)
				return
			}
			for _, rep := range a.replies {
				ntpBytes := rep.Payload
				if overSCION {
					// back to the previous hop, addresses and ports exchanged
					sp := parseSCION(rep.Payload)
					dh, _ := netip.AddrFromSlice(sp.scn.RawDstAddr)
					sh, _ := netip.AddrFromSlice(sp.scn.RawSrcAddr)
					if rep.Dst != rtr || !sp.ok || !sp.isUDP || sp.scn.DstIA != scCliIA || sp.scn.SrcIA != scSrvIA || dh.Unmap() != src.Addr() || sh.Unmap() != netip.MustParseAddr(scSrvIP) ||
						sp.udp.DstPort != c.srcPort || sp.udp.SrcPort != scSvcPort {
						r.Fail("C09", "reply/addressing", "SCION reply to a request from %v,%v went to %v (%v,%v port %d, from port %d)", scCliIA, src, rep.Dst, sp.scn.DstIA, dh, sp.udp.DstPort, sp.udp.SrcPort)
						return
					}
					ntpBytes = sp.pld
				} else if rep.Dst != src {
					r.Fail("C09", "reply/addressing", "reply to a request from %v went to %v", src, rep.Dst)
					return
				}
				rp, ok := decodeNTP(ntpBytes)
				if !ok || rp.Version() != 4 || rp.Mode() != ntp.ModeServer || rp.Stratum != 1 {
					r.Fail("C09", "reply/header", "reply header LVM %#02x stratum %d: not version 4, server mode, stratum 1", ntpBytes[0], ntpBytes[1])
					return
				}
				// anti-reflection: a reply fed back to the listeners (forged source) is not answered
				if i%8 == 0 {
					fb := wrap(append([]byte(nil), ntpBytes...), atkIP, 123, "reflected reply")
					fa := &acct{c: c}
					byID[fb.ID] = fa
					net.Inject(fb, 50*time.Microsecond)
					if r.Sleep(fmt.Sprintf("settle-refl:%d", i), cliNode, 5*time.Millisecond).Killed {
						return
					}
					if len(fa.replies) != 0 {
						r.Fail("C09", "reflection/answered", "a server reply fed back to the listener was answered %d time(s)", len(fa.replies))
						return
					}
					r.Probe("reflection-checked")
				}
				answered++
			}
			if want > 0 && overSCION {
				r.Probe("answered-over-scion")
			}
			if want > 0 {
				r.Probe("answered")
			} else {
				r.Probe("ignored")
			}
			if c.trailer == "nts-valid" && want > 0 {
				r.Probe("nts-answered")
			}
			checked++
			if len(samples) < 5 && (i%17 == 3) {
				samples = append(samples, fmt.Sprintf("first=%#02x len=%d trailer=%s -> %d repl", c.first, c.length, c.trailer, len(a.replies)))
			}
		}
	})
	reason := r.Loop(3_000_000, 0)
	r.SetVT()
	r.Drain()
	if reason != "" && r.Violation() == nil {
		r.Fail("harness", "c09/"+reason, "scheduler stopped: %s pending=%v", reason, r.PendingIDs())
	}
	r.Count("cases", int64(checked))
	if mode == "enumerated" {
		r.Count("enumerated-cases", int64(checked))
	}
	return map[string]any{"mode": mode, "over_scion": overSCION, "cases": checked, "answered": answered, "examples": samples}
}

func init() {
	simcore.Registry["C09"] = &simcore.Spec{
		World:      c09World,
		NonTrivial: func(r *simcore.Run) bool { return r.Probes["answered"] > 0 && r.Probes["ignored"] > 0 },
	}
}
