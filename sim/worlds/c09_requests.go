//go:build go1.25

package worlds

import (
	"crypto/rand"
	"fmt"
	"net/netip"
	"testing"
	"time"

	"example.com/scion-time/net/ntp"
	"example.com/scion-time/net/nts"
	"example.com/scion-time/net/ntske"

	"verif.local/sim/simcore"
	"verif.local/sim/simnet"
)

// W-ntp-ip for C09: 8 real runIPServer listeners on one port; a scripted sender
// fires crafted datagrams at them; the simulated network counts what comes back
// for each. The first-byte x length-class x trailer-class space is enumerated
// completely across the first runs of a batch; later runs sample the rest.

var c09Lengths = []int{0, 1, 47, 48, 49, 50, 51, 52, 75, 76, 100, 1024, 2047, 2048}
var c09Trailers = []string{"zeros", "random", "ff", "nts-valid", "nts-bitflip"}

const c09CasesPerRun = 96

// c09Total is the size of the enumerated space.
func c09Total() int { return 256 * len(c09Lengths) * len(c09Trailers) }

type c09Case struct {
	first   byte
	length  int
	trailer string
	payload []byte
	expect  int // replies the statement demands
	srcPort uint16
	note    string
}

// c09ValidNTS builds a well-formed, authenticated NTS request around hdr using the
// project's own encoder and a cookie sealed under the server's current key.
func c09ValidNTS(hdr []byte, prov *ntske.Provider) []byte {
	c2s, s2c := make([]byte, 32), make([]byte, 32)
	rand.Read(c2s)
	rand.Read(s2c)
	key := prov.Current()
	sc := ntske.ServerCookie{Algo: ntske.AES_SIV_CMAC_256, C2S: c2s, S2C: s2c}
	var cookies [][]byte
	for i := 0; i < 8; i++ {
		ec, err := sc.EncryptWithNonce(key.Value, key.ID)
		if err != nil {
			panic(err)
		}
		cookies = append(cookies, ec.Encode())
	}
	data := ntske.Data{C2sKey: c2s, S2cKey: s2c, Cookie: cookies, Algo: ntske.AES_SIV_CMAC_256}
	req, _ := nts.NewRequestPacket(data)
	buf := append([]byte(nil), hdr[:48]...)
	nts.EncodePacket(&buf, &req)
	return buf
}

// c09Expect is the statement's predicate.
func c09Expect(p []byte, trailerValid bool) int {
	if len(p) < 48 {
		return 0
	}
	li := p[0] >> 6
	vn := (p[0] >> 3) & 7
	mode := p[0] & 7
	if li != 0 && li != 3 {
		return 0
	}
	if !((vn >= 2 && vn <= 4 && mode == 3) || (vn == 1 && mode == 0)) {
		return 0
	}
	if len(p) > 48 && !trailerValid {
		return 0
	}
	return 1
}

func c09World(t *testing.T, r *simcore.Run) any {
	tp := r.Tape
	w := newIPWorld(r, time.Duration(tp.Range(0, int64(time.Hour), "srvoff")), 0)
	prov := ntske.NewProvider()
	r.ProcDelayMaxNs = []int64{0, 20000}[tp.Intn(2, "pdelay")]
	w.startListeners(8, prov)

	// which slice of the enumerated space does this run cover?
	idx := int(r.Index)
	total := c09Total()
	nEnumRuns := (total + c09CasesPerRun - 1) / c09CasesPerRun
	var cases []c09Case
	mk := func(first byte, length int, trailer string) c09Case {
		c := c09Case{first: first, length: length, trailer: trailer}
		hdr := make([]byte, 48)
		rand.Read(hdr[1:])
		hdr[0] = first
		valid := false
		switch {
		case length <= 48:
			c.payload = hdr[:length]
			c.trailer = "none"
		case trailer == "nts-valid" || trailer == "nts-bitflip":
			c.payload = c09ValidNTS(hdr, prov)
			valid = true
			if trailer == "nts-bitflip" {
				// flip one bit somewhere after the header: no longer a valid NTS request
				// (the authenticator field is the last 40 bytes of a request; the two bytes of
				// its own extension length are not covered by the AEAD and are not interpreted:
				// flipping them leaves the request valid, so they are not used here)
				authPos := len(c.payload) - 40
				pos := 48 + tp.Intn(len(c.payload)-48, "flip.pos")
				if pos == authPos+2 || pos == authPos+3 {
					pos = authPos + 4
				}
				c.payload[pos] ^= 1 << tp.Intn(8, "flip.bit")
				valid = false
				c.note = fmt.Sprintf("bit flipped at %d", pos)
			}
		default:
			c.payload = make([]byte, length)
			copy(c.payload, hdr)
			switch trailer {
			case "random":
				rand.Read(c.payload[48:])
			case "ff":
				for i := 48; i < length; i++ {
					c.payload[i] = 0xff
				}
			}
		}
		c.length = len(c.payload)
		c.expect = c09Expect(c.payload, valid)
		return c
	}
	mode := "enumerated"
	if idx < nEnumRuns {
		for k := idx * c09CasesPerRun; k < (idx+1)*c09CasesPerRun && k < total; k++ {
			first := byte(k % 256)
			rest := k / 256
			cases = append(cases, mk(first, c09Lengths[rest%len(c09Lengths)], c09Trailers[rest/len(c09Lengths)]))
		}
	} else {
		mode = "sampled"
		for k := 0; k < c09CasesPerRun; k++ {
			first := byte(tp.Intn(256, "first"))
			if tp.Bool(1, 2, "validish") {
				first = []byte{0x23, 0x1b, 0x13, 0xe3, 0x08, 0xdb}[tp.Intn(6, "vfirst")]
			}
			length := c09Lengths[tp.Intn(len(c09Lengths), "len")]
			if tp.Bool(1, 4, "rlen") {
				length = tp.Intn(2049, "rlen2")
			}
			cases = append(cases, mk(first, length, c09Trailers[tp.Intn(len(c09Trailers), "trailer")]))
		}
	}

	// kernel timestamp trouble at the listeners (sampled runs): a missing or nanosecond-form
	// receive timestamp, a missing or late transmit timestamp - each request is still
	// answered exactly once
	if mode == "sampled" && tp.Bool(1, 2, "tsfaults") {
		srvPlan := w.net.Plan
		srvPlan.RxStampMissing, srvPlan.RxStampNS = uint64(tp.Intn(300, "rxmiss")), uint64(tp.Intn(300, "rxns"))
		if tp.Bool(1, 2, "txfaults") {
			srvPlan.TxStampMissing, srvPlan.TxStampLate = uint64(tp.Intn(200, "txmiss")), uint64(tp.Intn(100, "txlate"))
		}
		w.net.PlanFor = func(d *simnet.Datagram, at *simnet.UDPConn) *simnet.FaultPlan {
			if at != nil && at.Host() == w.srv {
				return &srvPlan
			}
			return nil
		}
	}

	// wire accounting: replies caused by each injected datagram
	type acct struct {
		c       *c09Case
		src     netip.AddrPort
		replies []*simnet.Datagram
	}
	byID := map[uint64]*acct{}
	byOrig := map[uint64]*acct{}
	w.net.OnSend = func(d *simnet.Datagram) {
		if d.SrcConn != nil && d.SrcConn.Host() == w.srv {
			if a := byID[d.Cause]; a != nil {
				a.replies = append(a.replies, d)
			} else if a := byOrig[d.Cause]; a != nil {
				a.replies = append(a.replies, d)
			}
		}
	}
	// the sender's sockets only collect
	sink, err := w.net.Listen(ipCliIP+":5000", false)
	if err != nil {
		panic(err)
	}
	_ = sink
	dupRate := uint64(0)
	if mode == "sampled" {
		dupRate = uint64(tp.Intn(300, "dup"))
	}
	checked, answered := 0, 0
	var samples []string
	w.goSafe("driver", func() {
		defer r.Finish()
		for i := range cases {
			c := &cases[i]
			c.srcPort = 5000
			if mode == "sampled" && tp.Bool(1, 3, "port") {
				c.srcPort = uint16(1 + tp.Intn(65535, "sport"))
			}
			src := netip.AddrPortFrom(netip.MustParseAddr(ipCliIP), c.srcPort)
			d := w.net.NewDatagram(src, w.srvAddr, c.payload, "crafted")
			a := &acct{c: c, src: src}
			byID[d.ID] = a
			w.net.Inject(d, 50*time.Microsecond)
			copies := 1
			if dupRate > 0 && tp.Bool(dupRate, 1000, "dup?") {
				// the network duplicates the datagram: each copy gets its own single reply
				dd := w.net.NewDatagram(src, w.srvAddr, append([]byte(nil), c.payload...), "crafted dup")
				dd.OrigID = d.ID
				byOrig[dd.ID] = a
				w.net.Inject(dd, time.Duration(50+tp.Intn(100, "dupdelay"))*time.Microsecond)
				copies = 2
				r.Fault("duplicate")
			}
			if r.Sleep(fmt.Sprintf("settle:%d", i), w.cli.Node, 5*time.Millisecond).Killed {
				return
			}
			want := c.expect * copies
			if c.length > 2048 {
				want = 0
			}
			if len(a.replies) != want {
				r.Fail("C09", fmt.Sprintf("replies/%s", map[bool]string{true: "missing", false: "unexpected"}[len(a.replies) < want]),
					"first byte %#02x (LI %d, version %d, mode %d), length %d, trailer %s %s: %d repl(y/ies), statement demands %d",
					c.first, c.first>>6, (c.first>>3)&7, c.first&7, c.length, c.trailer, c.note, len(a.replies), want)
				return
			}
			for _, rep := range a.replies {
				if rep.Dst != src {
					r.Fail("C09", "reply/addressing", "reply to a request from %v went to %v", src, rep.Dst)
					return
				}
				rp, ok := decodeNTP(rep.Payload)
				if !ok || rp.Version() != 4 || rp.Mode() != ntp.ModeServer || rp.Stratum != 1 {
					r.Fail("C09", "reply/header", "reply header LVM %#02x stratum %d: not version 4, server mode, stratum 1", rep.Payload[0], rep.Payload[1])
					return
				}
				// anti-reflection: a reply fed back to the listeners (forged source) is not answered
				if i%8 == 0 {
					fb := w.net.NewDatagram(netip.AddrPortFrom(netip.MustParseAddr(ipAtkIP), 123), w.srvAddr, append([]byte(nil), rep.Payload...), "reflected reply")
					fa := &acct{c: c}
					byID[fb.ID] = fa
					w.net.Inject(fb, 50*time.Microsecond)
					if r.Sleep(fmt.Sprintf("settle-refl:%d", i), w.cli.Node, 5*time.Millisecond).Killed {
						return
					}
					if len(fa.replies) != 0 {
						r.Fail("C09", "reflection/answered", "a server reply fed back to the listener was answered %d time(s)", len(fa.replies))
						return
					}
					r.Probe("reflection-checked")
				}
				answered++
			}
			if want > 0 {
				r.Probe("answered")
			} else {
				r.Probe("ignored")
			}
			if c.trailer == "nts-valid" && want > 0 {
				r.Probe("nts-answered")
			}
			checked++
			if len(samples) < 5 && (i%17 == 3) {
				samples = append(samples, fmt.Sprintf("first=%#02x len=%d trailer=%s -> %d repl", c.first, c.length, c.trailer, len(a.replies)))
			}
		}
	})
	reason := r.Loop(3_000_000, 0)
	r.SetVT()
	r.Drain()
	if reason != "" && r.Violation() == nil {
		r.Fail("harness", "c09/"+reason, "scheduler stopped: %s pending=%v", reason, r.PendingIDs())
	}
	r.Count("cases", int64(checked))
	if mode == "enumerated" {
		r.Count("enumerated-cases", int64(checked))
	}
	return map[string]any{"mode": mode, "cases": checked, "answered": answered, "examples": samples}
}

func init() {
	simcore.Registry["C09"] = &simcore.Spec{
		World:      c09World,
		NonTrivial: func(r *simcore.Run) bool { return r.Probes["answered"] > 0 && r.Probes["ignored"] > 0 },
	}
}
