//go:build go1.25

package worlds

import (
	"fmt"
	"strings"
	"testing"
	"time"

	"example.com/scion-time/core/client"
	"example.com/scion-time/core/server"
	"example.com/scion-time/net/ntp"

	"verif.local/sim/simcore"
	"verif.local/sim/simnet"
)

// W-ntp-ip for C03: the real IPClient (basic and interleaved mode, recording
// filter) against the real runIPServer listeners on the simulated network with
// loss, duplication, delay, reordering, server clock offset/skew/steps and
// server-side kernel-timestamp faults. The simulator knows the true instants of
// every transmission and arrival and the server clock at each of them.

// c03Eps is the rounding allowance: two truncating 2^-32 s conversions per
// timestamp (client- and server-side) and up to eight 1 ns receive-timestamp
// uniqueness bumps.
const c03Eps = 16 * time.Nanosecond

type c03Attempt struct {
	conn     *simnet.UDPConn
	req      *simnet.Datagram
	accepted *simnet.Datagram
}

type c03Exchange struct {
	q, p *simnet.Datagram
}

func c03World(t *testing.T, r *simcore.Run) any {
	if r.Index%4 == 3 {
		return c03SCIONWorld(r)
	}
	tp := r.Tape
	// ---- world knobs (swarm)
	var srvOff time.Duration
	switch tp.Intn(6, "srvoff") {
	case 0:
		srvOff = 0
	case 1:
		srvOff = time.Duration(tp.Range(0, 1000, "ns"))
	case 2:
		srvOff = time.Duration(tp.Range(0, int64(time.Second), "s"))
	case 3:
		srvOff = time.Duration(tp.Range(0, int64(48*time.Hour), "h"))
	case 4:
		srvOff = time.Duration(tp.Range(0, int64(30*365*24*time.Hour), "y"))
	default:
		srvOff = time.Duration(tp.Range(0, int64(10*time.Millisecond), "ms"))
	}
	if tp.Bool(1, 2, "srvneg") {
		srvOff = -srvOff
	}
	skew := int64(0)
	if tp.Bool(1, 3, "skew") {
		skew = tp.Range(0, 200000, "ppb") - 100000
	}
	nearEra := tp.Bool(1, 8, "era")
	if nearEra {
		// put the client a few seconds before the NTP era rollover (2036-02-07 06:28:16 UTC)
		roll := time.Date(2036, 2, 7, 6, 28, 16, 0, time.UTC)
		time.Sleep(roll.Sub(time.Now()) - time.Duration(tp.Range(0, int64(20*time.Second), "before")))
		r.Begin() // restart the run's time origin after the jump
		r.Probe("near-era")
	}
	ipDrawFamily(r)
	w := newIPWorld(r, srvOff, skew)
	w.observe()
	r.ProcDelayMaxNs = []int64{0, 20000, 2000000}[tp.Intn(3, "pdelay")]
	plan := &w.net.Plan
	plan.MinLatency = time.Duration(tp.Range(0, int64(time.Millisecond), "minlat"))
	plan.MaxLatency = plan.MinLatency + time.Duration(tp.Range(0, int64(20*time.Millisecond), "jit"))
	faulty := tp.Bool(2, 3, "faulty")
	if faulty {
		if tp.Bool(1, 2, "k.drop") {
			plan.Drop = uint64(tp.Range(10, 300, "drop"))
		}
		if tp.Bool(1, 2, "k.dup") {
			plan.Dup = uint64(tp.Range(10, 300, "dup"))
			plan.DupSameInstant = uint64(tp.Intn(500, "dupsame"))
		}
		if tp.Bool(1, 2, "k.long") {
			plan.LongDelay = uint64(tp.Range(10, 200, "long"))
			plan.LongDelayMax = time.Duration(tp.Range(int64(time.Millisecond), int64(2*time.Second), "longmax"))
		}
	}
	srvTsFaults := faulty && tp.Bool(1, 3, "srvts")
	// the client's own kernel transmit timestamp goes missing now and then: it falls back to a
	// clock reading taken after the send, which is no kernel timestamp - the bound is not
	// demanded of such an exchange, but whose reply is accepted for whose request still is
	cliTxFaults := faulty && tp.Bool(1, 4, "clitx")
	if srvTsFaults || cliTxFaults {
		base := *plan
		srvPlan, cliPlan := base, base
		srvPlan.TxStampMissing, srvPlan.TxStampLate, srvPlan.RxStampMissing, srvPlan.RxStampNS = 80, 80, 60, 60
		cliPlan.TxStampMissing = 200
		w.net.PlanFor = func(d *simnet.Datagram, at *simnet.UDPConn) *simnet.FaultPlan {
			if at != nil && at.Host() == w.srv && srvTsFaults {
				return &srvPlan
			}
			if at != nil && at.Host() == w.cli && cliTxFaults {
				return &cliPlan
			}
			return nil
		}
	}
	w.net.ReusePorts = tp.Bool(1, 6, "reuseports")
	nlisten := []int{8, 1, 2, 8}[tp.Intn(4, "nlisten")]
	w.startListeners(nlisten, nil)

	interleaved := tp.Bool(2, 3, "interleaved")
	// 1..3 clients on the same host (the server keeps one record per host address, so they
	// share its eight slots); with several clients the rounds are synchronised and the server's
	// clock may be coarse, so that requests collide on their receive timestamps
	nclients := 1
	if tp.Bool(1, 3, "multi") {
		nclients = 2 + tp.Intn(2, "nclients")
	}
	// (a coarse server clock, on which the requests of such clients collide, is not used here:
	// it mainly re-finds the receive-timestamp reuse of known finding F08, which the store-level
	// check C06 classifies precisely)
	quantum := time.Duration(0)
	eps := c03Eps + quantum
	type c03Client struct {
		c         *client.IPClient
		filter    *recFilter
		seenCalls int
		prev      *c03Exchange
	}
	clients := map[string]*c03Client{}
	for i := 0; i < nclients; i++ {
		f := &recFilter{}
		clients[fmt.Sprintf("driver%d", i)] = &c03Client{c: &client.IPClient{Log: quietLog(), InterleavedMode: interleaved, Filter: f}, filter: f}
	}
	nmeas := 5 + tp.Intn(36, "nmeas")
	timeout := []time.Duration{200 * time.Millisecond, time.Second, 3 * time.Second}[tp.Intn(3, "timeout")]
	stepServer := tp.Bool(1, 4, "srvsteps")

	// ---- per-attempt tracking through the socket hooks
	attempts := map[*simnet.UDPConn]*c03Attempt{}
	checked, excluded, ilAccepted, basicAfterIl := 0, 0, 0, 0
	var samples []string
	prevOnSend := w.net.OnSend
	mangle := uint64(0)
	if faulty && tp.Bool(1, 3, "k.mangle") {
		mangle = uint64(tp.Range(20, 200, "mangle"))
	}
	// Preconditions of recorded findings, observed on the wire:
	// F19: the listeners stamped two different requests of the client's address with one
	// receive time (the store identifies an exchange by address and receive time only);
	// F02: a reply to a request sent from an earlier socket reached a later socket that was
	// given the same port.
	senderTag := map[uint64]string{} // which client goroutine sent a request
	rxOwner := map[ntp.Time64]uint64{}
	rxReused := false
	staleSeen := map[string]bool{}
	w.net.OnRecv = func(c *simnet.UDPConn, d *simnet.Datagram) {
		if c.Host() != w.cli || d.SrcConn == nil || d.SrcConn.Host() != w.srv {
			return
		}
		c0 := w.delivered[d.Cause]
		if c0 == nil {
			return
		}
		o := w.sent[c0.ID]
		if c0.OrigID != 0 {
			o = w.sent[c0.OrigID]
		}
		if o != nil && o.SrcConn != c && o.Src == d.Dst {
			staleSeen[simcore.Tag()] = true
		}
	}
	w.panicSfx = func(tag, site string) string {
		if staleSeen[tag] && strings.Contains(site, "ValidateResponseTimestamps") {
			return "+stale-reply-on-reused-port"
		}
		return ""
	}
	w.net.OnSend = func(d *simnet.Datagram) {
		prevOnSend(d)
		if d.SrcConn != nil && d.SrcConn.Host() == w.srv {
			if pk, ok := decodeNTP(d.Payload); ok {
				if c, seen := rxOwner[pk.ReceiveTime]; seen && c != d.Cause {
					rxReused = true
					r.Probe("receive-timestamp-reused-for-client-address")
				}
				rxOwner[pk.ReceiveTime] = d.Cause
			}
		}
		if mangle > 0 && d.SrcConn != nil && d.SrcConn.Host() == w.srv && len(d.Payload) >= 48 && tp.Bool(mangle, 1000, "f.mangle") {
			// a reply whose leap/version/mode or stratum byte is damaged in flight: it still
			// matches the request but (usually) fails validation; timestamps are untouched
			if tp.Bool(1, 2, "mangle.which") {
				d.Payload[0] ^= 1 << tp.Intn(8, "mangle.bit")
			} else {
				d.Payload[1] = []byte{0, 16, 17, 255, 15, 2}[tp.Intn(6, "mangle.stratum")]
			}
			d.Note += "mangled "
			r.Fault("reply-header-mangled")
		}
		if d.SrcConn != nil && d.SrcConn.Host() == w.cli {
			senderTag[d.ID] = simcore.Tag()
			a := attempts[d.SrcConn]
			if a == nil {
				a = &c03Attempt{conn: d.SrcConn}
				attempts[d.SrcConn] = a
			}
			if a.req == nil {
				a.req = d
				if q, ok := decodeNTP(d.Payload); ok && q.ReceiveTime != q.TransmitTime && (q.OriginTime != ntp.Time64{}) {
					r.Probe("interleaved-request")
				}
			}
		}
	}
	w.net.OnClose = func(cn *simnet.UDPConn) {
		if cn.Host() != w.cli {
			return
		}
		a := attempts[cn]
		delete(attempts, cn)
		cs := clients[simcore.Tag()] // the socket is closed by the goroutine that measured
		if cs == nil {
			r.Fail("harness", "c03/untagged-close", "client socket closed by an unknown goroutine %q", simcore.Tag())
			return
		}
		filter := cs.filter
		if a == nil || len(filter.calls) == cs.seenCalls {
			return // attempt failed: nothing was reported
		}
		ts := filter.calls[len(filter.calls)-1]
		cs.seenCalls = len(filter.calls)
		a.accepted = cn.LastRecv
		if a.accepted == nil || a.req == nil {
			r.Fail("C03", "accept/nothing-consumed", "the client reported an offset without having read a datagram")
			return
		}
		P, Q := a.accepted, a.req
		pp, ok1 := decodeNTP(P.Payload)
		qp, ok2 := decodeNTP(Q.Payload)
		if !ok1 || !ok2 {
			r.Fail("C03", "accept/undecodable", "accepted datagram %d or request %d does not decode", P.ID, Q.ID)
			return
		}
		// whatever its mode, the accepted datagram must answer this attempt's request
		if P.SrcConn != nil && P.SrcConn.Host() == w.srv {
			if c0 := w.delivered[P.Cause]; c0 != nil && c0.ID != Q.ID && c0.OrigID != Q.ID {
				site := "accept/stale-reply"
				o := w.sent[c0.ID]
				if c0.OrigID != 0 {
					o = w.sent[c0.OrigID]
				}
				if o != nil && o.Src == Q.Src && o.SrcConn != Q.SrcConn {
					site = "accept/stale-reply-on-reused-port"
				}
				// An interleaved request names its sender's previous transmit timestamp (the kernel's, or
				// a clock reading when the kernel's was missing). When two client objects of this host
				// hold the same value - they sent, or read the clock, at the same virtual instant - a
				// reply to the other client's request cannot be told from a reply to this one by
				// anything the packets carry: the coincidence is the simulator's, not the client's.
				// (One client re-sending an unchanged request - F02, F24 - is the same sender.)
				if o != nil && senderTag[o.ID] != "" && senderTag[o.ID] != senderTag[Q.ID] {
					if oq, ok := decodeNTP(o.Payload); ok && oq.TransmitTime == qp.TransmitTime {
						r.Probe("two-clients-with-one-transmit-timestamp")
						return
					}
				}
				r.Fail("C03", site, "the client accepted reply %d, which answers request %d of an earlier attempt, for its request %d (port %v, port reuse %v)",
					P.ID, c0.ID, Q.ID, Q.Src, w.net.ReusePorts)
				return
			}
		}
		ilReq := qp.ReceiveTime != qp.TransmitTime && (qp.OriginTime != ntp.Time64{} || qp.ReceiveTime != ntp.Time64{})
		ilResp := ilReq && pp.OriginTime == qp.ReceiveTime
		cur := &c03Exchange{q: Q, p: P}
		e := cur
		if ilResp {
			ilAccepted++
			r.Probe("interleaved-accepted")
			if cs.prev == nil {
				r.Fail("C03", "interleaved/no-previous", "interleaved response accepted without a previous accepted exchange")
				return
			}
			e = cs.prev
		} else if ilReq {
			basicAfterIl++
			r.Probe("basic-reply-to-interleaved-request")
		}
		cs.prev = cur
		off := ntp.ClockOffset(ts[0], ts[1], ts[2], ts[3])
		// ground truth of exchange e
		T0, T3 := e.q.SentAt, e.p.ArrivedAt
		sc := w.srv.Clock
		hint := e.p.SentAt
		T1x := sc.InstantOf(ts[1], hint)
		T2x := sc.InstantOf(ts[2], hint)
		if sc.SteppedBetween(T0.Add(-time.Millisecond), T3.Add(time.Millisecond)) {
			excluded++
			r.Probe("excluded-clock-step-inside-exchange")
			return
		}
		if e.p.SrcConn == nil || e.p.SrcConn.Host() != w.srv {
			r.Fail("C03", "accept/not-from-server", "accepted datagram %d was not sent by the server", e.p.ID)
			return
		}
		// which copy of the request caused that reply, and when did it reach the server
		cause := w.delivered[e.p.Cause]
		if cause == nil {
			r.Fail("harness", "c03/no-cause", "reply %d has no recorded cause", e.p.ID)
			return
		}
		if cause.ID != e.q.ID && cause.OrigID != e.q.ID {
			// the accepted reply answers another request than the one this attempt sent
			site := "accept/stale-reply"
			if orig := w.sent[cause.ID]; orig != nil && orig.Src == e.q.Src && orig.SrcConn != e.q.SrcConn {
				site = "accept/stale-reply-on-reused-port"
			} else if o := w.sent[cause.OrigID]; o != nil && o.Src == e.q.Src && o.SrcConn != e.q.SrcConn {
				site = "accept/stale-reply-on-reused-port"
			}
			r.Fail("C03", site, "the client accepted reply %d, which answers request %d of an earlier attempt, for its request %d (port %v, port reuse %v)",
				e.p.ID, cause.ID, e.q.ID, e.q.Src, w.net.ReusePorts)
			return
		}
		reqArr := cause.ArrivedAt
		desc := fmt.Sprintf("exchange(req %d sent %v, reached server %v, reply %d sent %v, reached client %v) mode=%s t1@%v t2@%v",
			e.q.ID, T0.Sub(r.Start()), reqArr.Sub(r.Start()), e.p.ID, e.p.SentAt.Sub(r.Start()), T3.Sub(r.Start()),
			map[bool]string{false: "basic", true: "interleaved"}[ilResp], T1x.Sub(r.Start()), T2x.Sub(r.Start()))
		// the four timestamps belong to exchange e
		if e.q.TxStampFault != "" {
			r.Probe("client-kernel-tx-stamp-missing")
			if ts[0].Before(w.cli.Clock.At(T0).Add(-eps)) || ts[0].After(ts[3]) {
				r.Fail("C03", "membership/t0", "software transmit timestamp %v of an exchange sent at %v and answered at %v (client clock; t1 %v t2 %v, T3 %v); %s", ts[0], w.cli.Clock.At(T0), ts[3], ts[1], ts[2], w.cli.Clock.At(T3), desc)
			}
			return
		}
		if d := absDur(ts[0].Sub(w.cli.Clock.At(T0))); d > eps {
			r.Fail("C03", "membership/t0", "t0 differs from the transmit time of the exchange's request by %v; %s", d, desc)
			return
		}
		if d := absDur(ts[3].Sub(w.cli.Clock.At(T3))); d > eps {
			r.Fail("C03", "membership/t3", "t3 differs from the receive time of the exchange's response by %v; %s", d, desc)
			return
		}
		// Known defect F03: after one late kernel transmit timestamp a listener pairs every
		// later reply with the previous reply's timestamp; classify such histories apart.
		sfx := ""
		if rxReused && ilResp {
			sfx = "+receive-timestamp-reused-for-client-address"
		} else if e.p.SrcConn.LateTx > 0 {
			// (F03, repaired: a history that still ends here is reported as a violation)
			sfx = "+listener-after-late-kernel-tx-stamp"
		}
		if T1x.Before(reqArr.Add(-eps)) || T1x.After(e.p.SentAt.Add(eps)) {
			r.Fail("C03", "membership/t1"+sfx, "server receive timestamp was not taken between the request's arrival and the reply's departure; %s", desc)
			return
		}
		if T2x.Before(T1x.Add(-eps)) || T2x.After(e.p.SentAt.Add(eps)) {
			r.Fail("C03", "membership/t2"+sfx, "server transmit timestamp was not taken between its receive timestamp and the reply's departure; %s", desc)
			return
		}
		// (in interleaved mode t2 is the transmit time on record for the exchange's reply:
		// the kernel timestamp once the listener has read it, its software timestamp
		// before that; both lie between t1 and the reply's departure)
		theta := (sc.OffsetAt(T1x) + sc.OffsetAt(T2x)) / 2
		half := (T3.Sub(T0) - T2x.Sub(T1x)) / 2
		errv := absDur(off - theta)
		if errv > half+eps {
			r.Fail("C03", "bound/half-rtt"+sfx, "reported offset %v, true offset %v: error %v exceeds half the round-trip delay %v (+%v); %s",
				off, theta, errv, half, eps, desc)
			return
		}
		checked++
		r.Probe("bound-checked")
		if len(samples) < 6 {
			samples = append(samples, fmt.Sprintf("off=%v true=%v err=%v halfRTT=%v %s", off, theta, errv, half, map[bool]string{false: "basic", true: "interleaved"}[ilResp]))
		}
	}

	// ---- workload: the gaps are drawn up front so that all clients of a run share them
	okCount, errCount := 0, 0
	gaps := make([]time.Duration, nmeas)
	steps := make([]time.Duration, nmeas)
	restartAt := make([]bool, nmeas) // the server process is restarted before this measurement: its timestamp store is empty again
	for k := range gaps {
		restartAt[k] = faulty && tp.Bool(1, 30, "srvrestart")
		gaps[k] = time.Duration(tp.Range(int64(10*time.Millisecond), int64(4*time.Second), "gap"))
		if tp.Bool(1, 5, "gaplong") {
			gaps[k] = time.Duration(tp.Range(int64(3*time.Second), int64(10*time.Second), "gap2"))
		}
		if stepServer && tp.Bool(1, 4, "stepnow") {
			steps[k] = time.Duration(tp.Range(0, int64(2*time.Second), "stepby")) - time.Second
			if steps[k] == 0 {
				steps[k] = 1
			}
		}
	}
	finished := 0
	for tag, cs := range clients {
		tag, cs := tag, cs
		w.goSafe(tag, func() {
			defer func() {
				finished++
				if finished == nclients {
					r.Finish()
				}
			}()
			for k := 0; k < nmeas && r.Violation() == nil; k++ {
				if r.Sleep(fmt.Sprintf("gap:%s:%d", tag, k), w.cli.Node, gaps[k]).Killed {
					return
				}
				if tag == "driver0" && restartAt[k] {
					server.VerifResetTSS()
					r.Fault("server-restart")
				}
				if tag == "driver0" && steps[k] != 0 {
					w.srv.Clock.StepBy(steps[k])
					r.Fault("server-clock-step")
				}
				filter := cs.filter
				before := len(filter.calls)
				_, off, err := w.measureIP(cs.c, timeout)
				if err != nil {
					errCount++
					r.Probe("measurement-failed")
				} else {
					okCount++
					if len(filter.calls) == before {
						r.Fail("C03", "report/without-evaluation", "measurement %d reported %v without evaluating a response", k, off)
						return
					}
					last := filter.calls[len(filter.calls)-1]
					if want := ntp.ClockOffset(last[0], last[1], last[2], last[3]); off != want {
						r.Fail("C03", "report/value", "measurement %d reported %v, last evaluated exchange gives %v", k, off, want)
						return
					}
				}
				r.Log("meas %s %d err=%v", tag, k, err != nil)
			}
		})
	}
	reason := r.Loop(3_000_000, 0)
	r.SetVT()
	r.Drain()
	if reason != "" && r.Violation() == nil {
		r.Fail("harness", "c03/"+reason, "scheduler stopped: %s pending=%v", reason, r.PendingIDs())
	}
	r.Count("measurements-ok", int64(okCount))
	r.Count("measurements-failed", int64(errCount))
	r.Count("exchanges-checked", int64(checked))
	return map[string]any{"server_offset": srvOff.String(), "skew_ppb": skew, "near_era_rollover": nearEra, "listeners": nlisten,
		"interleaved_mode": interleaved, "clients": nclients, "server_clock_quantum": quantum.String(), "measurements": nmeas, "ok": okCount, "failed": errCount, "checked": checked,
		"interleaved_accepted": ilAccepted, "excluded_step": excluded, "reuse_ports": w.net.ReusePorts,
		"plan": fmt.Sprintf("%+v", *plan), "examples": samples}
}

func init() {
	simcore.Registry["C03"] = &simcore.Spec{
		World:      c03World,
		NonTrivial: func(r *simcore.Run) bool { return r.Counts["exchanges-checked"] >= 2 },
	}
}
