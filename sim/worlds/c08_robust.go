//go:build go1.25

package worlds

import (
	"context"
	"crypto/rand"
	"crypto/tls"
	"crypto/x509"
	"encoding/binary"
	"fmt"
	"net"
	"net/netip"
	"testing"
	"time"

	"github.com/google/gopacket"
	"github.com/scionproto/scion/pkg/addr"
	"github.com/scionproto/scion/pkg/slayers"
	"github.com/scionproto/scion/pkg/snet"

	"example.com/scion-time/core/client"
	"example.com/scion-time/core/server"
	"example.com/scion-time/net/csptp"
	"example.com/scion-time/net/ntp"
	"example.com/scion-time/net/ntske"
	"example.com/scion-time/net/scion"

	"verif.local/sim/simcore"
	"verif.local/sim/simnet"
	"verif.local/sim/simsync"
)

// C08: every receive loop of the service faces hostile input. A panic anywhere in
// the node is a violation (recovered in harness-started goroutines and attributed
// to the innermost repository frame; a spinning loop is caught by the wall-clock
// watchdog), and after each burst of crafted input a well-formed sentinel request
// on the same socket must still be answered.
//
// Sub-worlds (chosen per run): ip-listener, scion-listener, csptp-listener,
// ntske-server, ip-client, scion-client, csptp-client, ntske-client.

var c08Modes = []string{"ip-listener", "scion-listener", "csptp-listener", "ntske-server", "ip-client", "scion-client", "csptp-client", "ntske-client"}

// mutate applies 1..4 byte-level mutations to a copy of b.
func c08Mutate(tp *simcore.Tape, b []byte) []byte {
	m := append([]byte(nil), b...)
	n := 1 + tp.Intn(4, "nmut")
	for i := 0; i < n && len(m) > 0; i++ {
		switch tp.Intn(7, "mutkind") {
		case 0:
			m[tp.Intn(len(m), "pos")] ^= 1 << tp.Intn(8, "bit")
		case 1:
			m[tp.Intn(len(m), "pos")] = []byte{0, 1, 3, 4, 0x7f, 0x80, 0xff}[tp.Intn(7, "val")]
		case 2:
			m = m[:tp.Intn(len(m)+1, "trunc")]
		case 3: // 16-bit word to a boundary value
			if len(m) >= 2 {
				p := tp.Intn(len(m)-1, "wpos")
				binary.BigEndian.PutUint16(m[p:], []uint16{0, 1, 3, 4, 5, 0xffff, 0x8000, 28, 27}[tp.Intn(9, "wval")])
			}
		case 4: // append garbage
			extra := make([]byte, tp.Intn(64, "extra"))
			rand.Read(extra)
			m = append(m, extra...)
		case 5: // duplicate a slice of the packet into itself
			if len(m) > 8 {
				p, q := tp.Intn(len(m)-4, "dp"), tp.Intn(len(m)-4, "dq")
				copy(m[p:p+4], m[q:q+4])
			}
		default: // zero a run
			if len(m) > 4 {
				p := tp.Intn(len(m)-4, "zp")
				for k := p; k < p+4; k++ {
					m[k] = 0
				}
			}
		}
	}
	return m
}

func c08World(t *testing.T, r *simcore.Run) any {
	tp := r.Tape
	mode := c08Modes[int(r.Index)%len(c08Modes)]
	var info map[string]any
	switch mode {
	case "ip-listener":
		info = c08IPListener(r, tp)
	case "scion-listener":
		info = c08SCIONListener(r, tp)
	case "csptp-listener":
		info = c08CSPTPListener(r, tp)
	case "ntske-server":
		info = c08KEServer(r, tp)
	case "ip-client":
		info = c08IPClient(r, tp)
	case "scion-client":
		info = c08SCIONClient(r, tp)
	case "csptp-client":
		info = c08CSPTPClient(r, tp)
	default:
		info = c08KEClient(r, tp)
	}
	r.Probe("mode:" + mode)
	if info == nil {
		info = map[string]any{}
	}
	info["mode"] = mode
	return info
}

// c08Await gives the receiving loop bounded time (3 ms at a time, 60 ms in all - a burst is at
// most seven datagrams, each costing a listener at most a poll timeout or two) to get to the
// sentinel; it returns false when the run was torn down meanwhile.
func c08Await(r *simcore.Run, node *simcore.Node, tag string, done func() bool) bool {
	for i := 0; i < 20; i++ {
		if r.Sleep(fmt.Sprintf("%s:%d", tag, i), node, 3*time.Millisecond).Killed {
			return false
		}
		if done() {
			break
		}
	}
	return true
}

func c08Finish(r *simcore.Run, name string) {
	reason := r.Loop(3_000_000, 0)
	r.SetVT()
	r.Drain()
	if reason != "" && r.Violation() == nil {
		r.Fail("harness", "c08/"+name+"/"+reason, "scheduler stopped: %s pending=%v", reason, r.IdlePending)
	}
}

// ---- IP NTP/NTS listener ------------------------------------------------------------

func c08IPListener(r *simcore.Run, tp *simcore.Tape) map[string]any {
	w := newIPWorld(r, 0, 0)
	prov := ntske.NewProvider()
	w.startListeners(1, prov)
	// kernel transmit timestamps go missing now and then (exercises the store's removal path
	// under whatever the crafted datagrams left behind)
	w.net.Plan.TxStampMissing = uint64(tp.Intn(300, "txmiss"))
	w.net.Plan.TxStampLate = uint64(tp.Intn(100, "txlate"))
	replies := map[uint64]int{}
	w.net.OnSend = func(d *simnet.Datagram) {
		if d.SrcConn != nil && d.SrcConn.Host() == w.srv {
			replies[d.Cause]++
		}
	}
	src := netip.AddrPortFrom(netip.MustParseAddr(ipCliIP), 5000)
	hdr := func() []byte {
		h := make([]byte, 48)
		rand.Read(h[1:])
		h[0] = 0x23
		return h
	}
	crafted, sentinels := 0, 0
	w.goSafe("driver", func() {
		defer r.Finish()
		for round := 0; round < 12 && r.Violation() == nil; round++ {
			burst := 1 + tp.Intn(6, "burst")
			for i := 0; i < burst; i++ {
				var pl []byte
				switch tp.Intn(9, "kind") {
				case 0:
					pl = make([]byte, tp.Intn(2049, "len"))
					rand.Read(pl)
				case 8: // an authenticator field with odd nonce / ciphertext lengths, the datagram ending in or right after the nonce
					pl = c08OddAuthenticator(tp, hdr())
				case 7: // correctly sealed, hostile extension fields inside the encrypted part
					pl = c08SealedHostileInside(r, tp, hdr(), prov)
				case 6: // correctly sealed under a valid cookie, with a unique identifier of unusual length
					pl = c08SealedOddUID(r, tp, hdr(), prov)
				case 1:
					pl = c08Mutate(tp, c09ValidNTS(hdr(), prov))
				case 2: // NTS-shaped request with hostile extension lengths
					pl = c09ValidNTS(hdr(), prov)
					fs := ntsWalk(pl)
					f := fs[tp.Intn(len(fs), "field")]
					binary.BigEndian.PutUint16(pl[f.off+2:], []uint16{0, 1, 2, 3, 4, 5, 8, 0xffff, uint16(len(f.body)), uint16(len(f.body) + 8)}[tp.Intn(10, "flen")])
				case 3: // cookie TLV lengths inside the cookie field
					pl = c09ValidNTS(hdr(), prov)
					for _, f := range ntsWalk(pl) {
						if f.typ == 0x0204 {
							p := f.off + 4 + []int{2, 8, 8 + 2 + 16 + 2}[tp.Intn(3, "tlv")]
							if p+2 <= len(pl) {
								binary.BigEndian.PutUint16(pl[p:], []uint16{0, 1, 2, 15, 17, 200, 0xffff}[tp.Intn(7, "tlvlen")])
							}
						}
					}
				case 4: // one cookie and seven placeholders (what a foreign client with one cookie sends)
					pl = c08OneCookieSevenPlaceholders(hdr(), prov)
				default:
					pl = c08Mutate(tp, hdr())
				}
				w.net.Inject(w.net.NewDatagram(src, w.srvAddr, pl, "crafted"), time.Duration(10+i)*time.Microsecond)
				crafted++
			}
			if r.Sleep(fmt.Sprintf("burst:%d", round), w.cli.Node, 3*time.Millisecond).Killed {
				return
			}
			s := w.net.NewDatagram(src, w.srvAddr, hdr(), "sentinel")
			w.net.Inject(s, 10*time.Microsecond)
			// the listener serves its queue in order, and every reply whose kernel transmit timestamp
			// is missing costs it the poll timeout: the sentinel is answered once the queue is served
			if !c08Await(r, w.cli.Node, fmt.Sprintf("sentinel:%d", round), func() bool { return replies[s.ID] >= 1 }) {
				return
			}
			if replies[s.ID] != 1 {
				r.Fail("C08", "ip-listener/sentinel-unanswered", "after %d crafted datagrams the well-formed request got %d replies", crafted, replies[s.ID])
				return
			}
			sentinels++
			r.Probe("sentinel-answered")
		}
	})
	c08Finish(r, "ip-listener")
	r.Count("crafted", int64(crafted))
	r.FaultN("hostile-input", int64(crafted))
	return map[string]any{"crafted": crafted, "sentinels_answered": sentinels}
}

// c08OneCookieSevenPlaceholders builds the request RFC 8915 describes for a client that
// holds a single cookie, using the project's own encoder pieces where they fit.
func c08OneCookieSevenPlaceholders(hdr []byte, prov *ntske.Provider) []byte {
	full := c09ValidNTS(hdr, prov) // uid, cookie, authenticator under matching keys
	fs := ntsWalk(full)
	var ck []byte
	for _, f := range fs {
		if f.typ == 0x0204 {
			ck = f.body
		}
	}
	// The AEAD cannot be recomputed without the keys; reuse the project's encoder through
	// a session of our own instead.
	c2s, s2c := make([]byte, 32), make([]byte, 32)
	rand.Read(c2s)
	rand.Read(s2c)
	key := prov.Current()
	sc := ntske.ServerCookie{Algo: ntske.AES_SIV_CMAC_256, C2S: c2s, S2C: s2c}
	ec, _ := sc.EncryptWithNonce(key.Value, key.ID)
	_ = ck
	return c08RawNTSRequest(hdr, ec.Encode(), 7, c2s)
}

// c08SealedOddUID is what a holder of a valid cookie can send: a request whose
// authenticator verifies, with a unique identifier field of a length the project's own
// client never produces, and a varying number of placeholders.
func c08SealedOddUID(r *simcore.Run, tp *simcore.Tape, hdr []byte, prov *ntske.Provider) []byte {
	r.Probe("sealed-request-odd-identifier")
	c2s, s2c := make([]byte, 32), make([]byte, 32)
	rand.Read(c2s)
	rand.Read(s2c)
	key := prov.Current()
	sc := ntske.ServerCookie{Algo: ntske.AES_SIV_CMAC_256, C2S: c2s, S2C: s2c}
	ec, _ := sc.EncryptWithNonce(key.Value, key.ID)
	c08UIDLen = []int{0, 1, 4, 16, 24, 28, 31, 32, 33, 36, 64, 255}[tp.Intn(12, "uidlen")]
	defer func() { c08UIDLen = 32 }()
	return c08RawNTSRequest(hdr, ec.Encode(), tp.Intn(8, "nph"), c2s)
}

var c08UIDLen = 32

// c08UnknownField, when set, is the body of an unknown extension field the next
// c08RawNTSRequest places between the unique identifier and the cookie.
var c08UnknownField []byte

// c08OddAuthenticator: header, a unique identifier field, and an authenticator field whose
// nonce length is not a multiple of four and whose ciphertext is tiny, cut off inside or
// right behind the nonce or its padding.
func c08OddAuthenticator(tp *simcore.Tape, hdr []byte) []byte {
	b := append([]byte(nil), hdr[:48]...)
	uid := make([]byte, 32)
	rand.Read(uid)
	b = append(b, 0x01, 0x04, 0, 36)
	b = append(b, uid...)
	nl := []int{1, 2, 3, 5, 15, 17, 21, 22, 23, 255}[tp.Intn(10, "noncelen")]
	cl := []int{0, 1, 2, 3, 16}[tp.Intn(5, "ctlen")]
	pad := (4 - nl%4) % 4
	flen := 4 + 4 + nl + pad + cl
	if tp.Bool(1, 3, "flen-short") {
		flen = 4 + 4 + nl + cl
	}
	b = append(b, 0x04, 0x04, byte(flen>>8), byte(flen), byte(nl>>8), byte(nl), byte(cl>>8), byte(cl))
	body := make([]byte, nl+pad+cl)
	rand.Read(body)
	b = append(b, body[:nl+tp.Intn(pad+cl+1, "tail")]...)
	return b
}

// c08EncFields: what the authenticator of the next c08RawNTSRequest encrypts (extension
// fields that only the holder of the session keys can place there)
var c08EncFields []byte

// c08SealedHostileInside: a correctly sealed request whose encrypted part holds extension
// fields with hostile lengths (zero, shorter than a header, unaligned, beyond the end).
func c08SealedHostileInside(r *simcore.Run, tp *simcore.Tape, hdr []byte, prov *ntske.Provider) []byte {
	r.Probe("sealed-request-hostile-encrypted-fields")
	c2s, s2c := make([]byte, 32), make([]byte, 32)
	rand.Read(c2s)
	rand.Read(s2c)
	key := prov.Current()
	sc := ntske.ServerCookie{Algo: ntske.AES_SIV_CMAC_256, C2S: c2s, S2C: s2c}
	ec, _ := sc.EncryptWithNonce(key.Value, key.ID)
	var inner []byte
	for i := 0; i < 1+tp.Intn(3, "ninner"); i++ {
		body := make([]byte, []int{0, 4, 24, 28, 60, 124}[tp.Intn(6, "innerbody")])
		rand.Read(body)
		l := []int{0, 1, 2, 3, 4, 5, 6, 8, 4 + len(body), 4 + len(body) + 4, 0xffff, 0x8000}[tp.Intn(12, "innerlen")]
		typ := []uint16{0x0204, 0x0304, 0x0104, 0x0404, 0x4242}[tp.Intn(5, "innertyp")]
		inner = append(inner, byte(typ>>8), byte(typ), byte(l>>8), byte(l))
		inner = append(inner, body...)
	}
	c08EncFields = inner
	defer func() { c08EncFields = nil }()
	return c08RawNTSRequest(hdr, ec.Encode(), tp.Intn(8, "nph"), c2s)
}

// ---- SCION listener, forwarder, SCMP -----------------------------------------------------

func c08SCIONPacket(tp *simcore.Tape, l4dst uint16, segLens []int, withAuth, withTS int, pld []byte) []byte {
	var s slayers.SCION
	s.SrcIA, s.DstIA = scCliIA, scSrvIA
	s.SetSrcAddr(addr.HostIP(netip.MustParseAddr(scCliIP)))
	s.SetDstAddr(addr.HostIP(netip.MustParseAddr(scSrvIP)))
	p := (&scionWorld{}).mkPath(0, segLens, 1, scCliIA, scSrvIA)
	if err := p.Dataplane().SetPath(&s); err != nil {
		panic(err)
	}
	buffer := gopacket.NewSerializeBuffer()
	opts := gopacket.SerializeOptions{ComputeChecksums: true, FixLengths: true}
	gopacket.Payload(pld).SerializeTo(buffer, opts)
	var u slayers.UDP
	u.SrcPort, u.DstPort = 41000, l4dst
	u.SetNetworkLayerForChecksum(&s)
	s.NextHdr = slayers.L4UDP
	u.SerializeTo(buffer, opts)
	if withAuth >= 0 || withTS >= 0 {
		e := slayers.EndToEndExtn{}
		e.NextHdr = slayers.L4UDP
		if withAuth >= 0 {
			data := make([]byte, withAuth)
			rand.Read(data)
			if withAuth >= 5 {
				binary.BigEndian.PutUint32(data, scion.PacketAuthSPIClient)
				data[4] = scion.PacketAuthAlgorithm
			}
			e.Options = append(e.Options, &slayers.EndToEndOption{OptType: slayers.OptTypeAuthenticator, OptData: data, OptAlign: [2]uint8{4, 2}})
		}
		if withTS >= 0 {
			data := make([]byte, withTS)
			rand.Read(data)
			if withTS >= 16 && tp.Bool(1, 2, "cmsgish") {
				// looks like a control message header
				binary.LittleEndian.PutUint64(data[0:], []uint64{uint64(withTS), 64, 32, 17, 16, 15, 8, 1, 0, 1 << 63, 1<<64 - 1}[tp.Intn(11, "cmsglen")])
				binary.LittleEndian.PutUint32(data[8:], uint32([]int{1, 1, 0, 41}[tp.Intn(4, "cmsglevel")]))  // SOL_SOCKET, or another level
				binary.LittleEndian.PutUint32(data[12:], uint32([]int{65, 35, 0, 2}[tp.Intn(4, "cmsgtype")])) // SO_TIMESTAMPING_NEW / SCM_TIMESTAMPNS / other
			}
			e.Options = append(e.Options, &slayers.EndToEndOption{OptType: scion.OptTypeTimestamp, OptData: data})
		}
		if err := e.SerializeTo(buffer, opts); err == nil {
			s.NextHdr = slayers.End2EndClass
		}
	}
	if tp.Bool(1, 4, "hbh") {
		// a hop-by-hop extension header in front of whatever follows
		h := slayers.HopByHopExtn{}
		h.NextHdr = s.NextHdr
		data := make([]byte, []int{0, 2, 6, 10}[tp.Intn(4, "hbhlen")])
		rand.Read(data)
		h.Options = append(h.Options, &slayers.HopByHopOption{OptType: slayers.OptionType([]int{0, 1, 7, 200}[tp.Intn(4, "hbhtype")]), OptData: data})
		if err := h.SerializeTo(buffer, opts); err == nil {
			s.NextHdr = slayers.HopByHopClass
		}
	}
	if err := s.SerializeTo(buffer, opts); err != nil {
		panic(err)
	}
	return append([]byte(nil), buffer.Bytes()...)
}

// c08WidenSrcHost rewrites a SCION header with a 4-byte source host address into one with
// a source host address of 4*(1+extra) bytes (header length and address-length field adjusted).
func c08WidenSrcHost(raw []byte, extra int) []byte {
	if len(raw) < 36 || raw[9]&0x03 != 0 {
		return raw
	}
	dl := int(raw[9]>>4) & 0x03
	srcEnd := 12 + 16 + 4*(dl+1) + 4
	if srcEnd > len(raw) {
		return raw
	}
	out := append([]byte(nil), raw[:srcEnd]...)
	pad := make([]byte, 4*extra)
	rand.Read(pad)
	out = append(out, pad...)
	out = append(out, raw[srcEnd:]...)
	out[5] += byte(extra)
	out[9] = out[9]&^0x03 | byte(extra)
	return out
}

func c08SCIONListener(r *simcore.Run, tp *simcore.Tape) map[string]any {
	scDrawFamily(r)
	w := newSCIONWorld(r, 0, 1)
	auth := tp.Bool(1, 2, "auth")
	prov := ntske.NewProvider()
	// in half of the runs the client side's end-host forwarder runs too (started by hand or
	// by StartSCIONDispatcher) and gets its share of the hostile input
	fwd := tp.Bool(1, 2, "with-forwarder")
	w.startServers(1, auth, 0, prov, fwd)
	replies, forwarded := 0, 0
	w.net.OnSend = func(d *simnet.Datagram) {
		if d.SrcConn != nil && d.SrcConn.Host() == w.srv {
			replies++
		}
		if d.SrcConn != nil && d.SrcConn.Host() == w.cli && d.Dst.Port() == 40556 {
			forwarded++
		}
	}
	if fwd {
		if _, err := w.net.Listen(hp(scCliIP, 40556), false); err != nil {
			panic(err)
		}
	}
	rtr := netip.AddrPortFrom(netip.MustParseAddr(scRouterIP(0)), scRouterPort)
	plainReq := func() []byte {
		h := make([]byte, 48)
		rand.Read(h[1:])
		h[0] = 0x23
		return h
	}
	// the payload is a plain request most of the time; otherwise NTS-shaped: valid,
	// mutated, or correctly sealed with an unusual unique identifier
	ntpReq := func() []byte {
		switch tp.Intn(8, "pld") {
		case 0:
			return c09ValidNTS(plainReq(), prov)
		case 1:
			return c08Mutate(tp, c09ValidNTS(plainReq(), prov))
		case 2:
			return c08SealedOddUID(r, tp, plainReq(), prov)
		case 3:
			return c08SealedHostileInside(r, tp, plainReq(), prov)
		case 4:
			return c08OddAuthenticator(tp, plainReq())
		}
		return plainReq()
	}
	crafted, sentinels := 0, 0
	w.goSafe("driver", func() {
		defer r.Finish()
		for round := 0; round < 10 && r.Violation() == nil; round++ {
			port := []uint16{scSvcPort, scEndhost}[tp.Intn(2, "port")]
			for i := 0; i < 1+tp.Intn(5, "burst"); i++ {
				var segs []int
				if tp.Bool(2, 3, "path") {
					segs = []int{2 + tp.Intn(4, "h")}
					if tp.Bool(1, 3, "seg2") {
						segs = append(segs, 2+tp.Intn(3, "h2"))
					}
				}
				l4 := []uint16{scSvcPort, scEndhost, 40555}[tp.Intn(3, "l4")]
				withAuth, withTS := -1, -1
				if tp.Bool(1, 2, "authopt") {
					withAuth = []int{0, 1, 4, 5, 12, 16, 27, 28, 29, 40}[tp.Intn(10, "authlen")]
				}
				if tp.Bool(1, 3, "tsopt") {
					withTS = []int{0, 8, 15, 16, 17, 32, 63, 64, 65}[tp.Intn(9, "tslen")]
				}
				raw := c08SCIONPacket(tp, l4, segs, withAuth, withTS, ntpReq())
				switch tp.Intn(9, "how") {
				case 8:
					// a consistent header whose source host address is 8 or 12 bytes long (no IP
					// address), in front of a full-length authenticator option or none
					if !scV6 {
						raw = c08SCIONPacket(tp, l4, segs, []int{28, 28, -1}[tp.Intn(3, "widea")], withTS, ntpReq())
						raw = c08WidenSrcHost(raw, 1+tp.Intn(2, "wide"))
						r.Probe("source-host-address-not-an-ip")
					}
				case 0, 1:
					raw = c08Mutate(tp, raw)
				case 2: // address type/length nibbles (8- and 12-byte host addresses)
					if len(raw) > 9 {
						raw[9] = []byte{0x11, 0x22, 0x12, 0x21, 0x33, 0x10, 0x01, 0x44, 0xff}[tp.Intn(9, "atype")]
					}
				case 3: // path type
					if len(raw) > 8 {
						raw[8] = []byte{0, 1, 2, 3, 4, 0xff}[tp.Intn(6, "ptype")]
					}
				case 4: // header length / payload length / next header
					if len(raw) > 7 {
						raw[4+tp.Intn(4, "hl")] = byte(tp.Intn(256, "hlv"))
					}
				case 5: // path meta header (current pointers, segment lengths)
					if len(raw) > 40 {
						raw[36+tp.Intn(4, "pm")] = byte(tp.Intn(256, "pmv"))
					}
				case 6: // SCION payload length and UDP length both announce more (or less) than was sent
					if tp.Bool(1, 2, "lenauth") {
						raw = c08SCIONPacket(tp, l4, segs, 28, withTS, ntpReq())
					}
					if len(raw) > 56 {
						v := []int{0xffff, 0x8000, 2000, 1200, 57, 55, 8, 0}[tp.Intn(8, "lenv")]
						binary.BigEndian.PutUint16(raw[6:], uint16(v))
						u := len(raw) - 56 // the UDP header precedes the 48-byte payload
						binary.BigEndian.PutUint16(raw[u+4:], uint16(max(0, v-tp.Intn(2, "lend")*40)))
						if tp.Bool(1, 3, "lencut") {
							raw = raw[:len(raw)-1-tp.Intn(47, "cut")]
						}
					}
				}
				w.net.Inject(w.net.NewDatagram(rtr, netip.AddrPortFrom(netip.MustParseAddr(scSrvIP), port), raw, "crafted"), time.Duration(10+i)*time.Microsecond)
				crafted++
			}
			// SCMP with assorted types
			if tp.Bool(1, 2, "scmp") {
				typ := []slayers.SCMPType{slayers.SCMPTypeEchoRequest, slayers.SCMPTypeTracerouteRequest, slayers.SCMPTypeEchoReply, 1, 5, 200}[tp.Intn(6, "scmpt")]
				var segs []int
				if tp.Bool(1, 2, "scmppath") {
					segs = []int{2, 3}
				}
				raw := buildSCION(scCliIA, scSrvIA, scCliIP, scSrvIP, 0, 0, segs, typ, make([]byte, 4+tp.Intn(40, "scmplen")))
				if tp.Bool(1, 2, "scmpmut") {
					raw = c08Mutate(tp, raw)
				}
				w.net.Inject(w.net.NewDatagram(rtr, netip.AddrPortFrom(netip.MustParseAddr(scSrvIP), port), raw, "crafted scmp"), 30*time.Microsecond)
				crafted++
			}
			if r.Sleep(fmt.Sprintf("burst:%d", round), w.cli.Node, 3*time.Millisecond).Killed {
				return
			}
			if fwd {
				// hostile input for the forwarder: packets for L4 port 0, its own port, the NTP port,
				// another port - plain, NTS-shaped, mutated; then a packet it has to relay
				for i := 0; i < 1+tp.Intn(3, "fburst"); i++ {
					l4 := []uint16{0, 0, scEndhost, 123, 40556, scSvcPort}[tp.Intn(6, "fl4")]
					raw := buildSCION(scSrvIA, scCliIA, scSrvIP, scCliIP, 41000, l4, []int{2 + tp.Intn(3, "fh")}, 0, ntpReq())
					if tp.Bool(1, 3, "fmut") {
						raw = c08Mutate(tp, raw)
					}
					w.net.Inject(w.net.NewDatagram(rtr, netip.AddrPortFrom(netip.MustParseAddr(scCliIP), scEndhost), raw, "crafted for the forwarder"), time.Duration(10+i)*time.Microsecond)
					crafted++
				}
				r.Probe("hostile-input-for-the-forwarder")
				if r.Sleep(fmt.Sprintf("fburst:%d", round), w.cli.Node, 3*time.Millisecond).Killed {
					return
				}
				f0 := forwarded
				relay := buildSCION(scSrvIA, scCliIA, scSrvIP, scCliIP, 41000, 40556, []int{3}, 0, []byte("relay me"))
				w.net.Inject(w.net.NewDatagram(rtr, netip.AddrPortFrom(netip.MustParseAddr(scCliIP), scEndhost), relay, "sentinel"), 10*time.Microsecond)
				if !c08Await(r, w.cli.Node, fmt.Sprintf("fsentinel:%d", round), func() bool { return forwarded > f0 }) {
					return
				}
				if forwarded == f0 {
					r.Fail("C08", "forwarder/sentinel-not-relayed", "after crafted SCION packets the end-host forwarder no longer relays a well-formed packet")
					return
				}
			}
			// sentinel: a well-formed NTP request over SCION on the service port
			n0 := replies
			good := c08SCIONPacket(tp, scSvcPort, []int{3}, -1, -1, plainReq())
			w.net.Inject(w.net.NewDatagram(rtr, netip.AddrPortFrom(netip.MustParseAddr(scSrvIP), scSvcPort), good, "sentinel"), 10*time.Microsecond)
			// and an echo request on the port that was attacked
			echo := buildSCION(scCliIA, scSrvIA, scCliIP, scSrvIP, 0, 0, []int{2}, slayers.SCMPTypeEchoRequest, []byte("sentinel echo"))
			w.net.Inject(w.net.NewDatagram(rtr, netip.AddrPortFrom(netip.MustParseAddr(scSrvIP), port), echo, "sentinel"), 20*time.Microsecond)
			if !c08Await(r, w.cli.Node, fmt.Sprintf("sentinel:%d", round), func() bool { return replies-n0 >= 2 }) {
				return
			}
			if replies-n0 < 2 {
				r.Fail("C08", "scion-listener/sentinel-unanswered", "after crafted SCION packets on port %d the well-formed NTP request and echo request got %d replies (want 2)", port, replies-n0)
				return
			}
			sentinels++
			r.Probe("sentinel-answered")
		}
	})
	c08Finish(r, "scion-listener")
	r.Count("crafted", int64(crafted))
	r.FaultN("hostile-input", int64(crafted))
	return map[string]any{"crafted": crafted, "sentinels_answered": sentinels, "auth": auth}
}

// ---- CSPTP listeners -------------------------------------------------------------------------

func c08CSPTPListener(r *simcore.Run, tp *simcore.Tape) map[string]any {
	w := newIPWorld(r, 0, 0)
	conns := map[int]*simnet.UDPConn{}
	for _, port := range []int{csptp.EventPortIP, csptp.GeneralPortIP} {
		c, err := w.net.Listen(hp(ipSrvIP, port), true)
		if err != nil {
			panic(err)
		}
		conns[port] = c
		cc, pp := c, port
		w.goSafe(fmt.Sprintf("P%d", port), func() {
			server.VerifRunCSPTPServerIP(context.Background(), quietLog(), cc, "", pp, 0)
		})
	}
	src := netip.AddrPortFrom(netip.MustParseAddr(ipCliIP), 5000)
	mkMsg := func(typ uint8, tlv bool) []byte {
		m := csptp.Message{SdoIDMessageType: typ, PTPVersion: csptp.PTPVersion, MessageLength: csptp.MinMessageLength, FlagField: csptp.FlagUnicast, SequenceID: uint16(tp.Intn(65536, "seq"))}
		b := make([]byte, csptp.MaxMessageLength)
		if tlv {
			rq := csptp.RequestTLV{Type: csptp.TLVTypeOrganizationExtension, OrganizationID: [3]uint8{csptp.OrganizationIDMeinberg0, csptp.OrganizationIDMeinberg1, csptp.OrganizationIDMeinberg2},
				OrganizationSubType: [3]uint8{csptp.OrganizationSubTypeRequest0, csptp.OrganizationSubTypeRequest1, csptp.OrganizationSubTypeRequest2}, FlagField: csptp.TLVFlagServerStateDS}
			m.MessageLength += uint16(csptp.EncodedRequestTLVLength(&rq))
			rq.Length = uint16(csptp.EncodedRequestTLVLength(&rq))
			csptp.EncodeRequestTLV(b[csptp.MinMessageLength:], &rq)
		}
		csptp.EncodeMessage(b[:csptp.MinMessageLength], &m)
		return b[:m.MessageLength]
	}
	crafted, sentinels := 0, 0
	w.goSafe("driver", func() {
		defer r.Finish()
		for round := 0; round < 12 && r.Violation() == nil; round++ {
			port := []int{csptp.EventPortIP, csptp.GeneralPortIP}[tp.Intn(2, "port")]
			for i := 0; i < 1+tp.Intn(6, "burst"); i++ {
				var pl []byte
				switch tp.Intn(4, "kind") {
				case 0:
					pl = make([]byte, tp.Intn(120, "len"))
					rand.Read(pl)
				case 1:
					pl = c08Mutate(tp, mkMsg(csptp.MessageTypeSync, false))
				case 2:
					pl = c08Mutate(tp, mkMsg(csptp.MessageTypeFollowUp, true))
				default:
					pl = mkMsg(csptp.MessageTypeFollowUp, true)
					pl = pl[:tp.Intn(len(pl)+1, "trunc")]
					if len(pl) >= 4 {
						binary.BigEndian.PutUint16(pl[2:], uint16(len(pl))) // consistent message length
					}
				}
				w.net.Inject(w.net.NewDatagram(src, netip.AddrPortFrom(netip.MustParseAddr(ipSrvIP), uint16(port)), pl, "crafted"), time.Duration(10+i)*time.Microsecond)
				crafted++
			}
			if r.Sleep(fmt.Sprintf("burst:%d", round), w.cli.Node, 3*time.Millisecond).Killed {
				return
			}
			// the CSPTP server does not answer yet (work in progress upstream): the sentinel is
			// that the listener consumes a further well-formed message
			n0 := conns[port].Reads
			good := mkMsg(csptp.MessageTypeSync, false)
			if port == csptp.GeneralPortIP {
				good = mkMsg(csptp.MessageTypeFollowUp, true)
			}
			w.net.Inject(w.net.NewDatagram(src, netip.AddrPortFrom(netip.MustParseAddr(ipSrvIP), uint16(port)), good, "sentinel"), 10*time.Microsecond)
			if r.Sleep(fmt.Sprintf("sentinel:%d", round), w.cli.Node, 3*time.Millisecond).Killed {
				return
			}
			if conns[port].Reads <= n0 || conns[port].QueueLen() != 0 {
				r.Fail("C08", "csptp-listener/stopped-reading", "after crafted messages the CSPTP listener on port %d no longer consumes datagrams", port)
				return
			}
			sentinels++
			r.Probe("sentinel-answered")
		}
	})
	c08Finish(r, "csptp-listener")
	r.Count("crafted", int64(crafted))
	r.FaultN("hostile-input", int64(crafted))
	return map[string]any{"crafted": crafted, "sentinels_consumed": sentinels}
}

// ---- NTS-KE server ---------------------------------------------------------------------------

func c08KEServer(r *simcore.Run, tp *simcore.Tape) map[string]any {
	nw := newNTSWorld(r, 1) // real NTS-KE server behind real TLS; handlers run under goSafe
	w := nw.ipWorld
	_, pool := mkCert([]string{"unused"}, nil)
	_ = pool
	crafted, sentinels := 0, 0
	var silent []*simnet.StreamConn
	w.goSafe("driver", func() {
		defer r.Finish()
		for round := 0; round < 6 && r.Violation() == nil; round++ {
			for i := 0; i < 1+tp.Intn(3, "burst"); i++ {
				raw, err := w.net.DialStream(w.atk, hp(ipSrvIP, kePort))
				if err != nil {
					r.Fail("harness", "c08/dial", "%v", err)
					return
				}
				crafted++
				if tp.Bool(1, 5, "silent") {
					// a peer that connects and then says nothing, keeping the connection open: the
					// well-formed exchange below must be served while it is still there
					silent = append(silent, raw)
					r.Fault("silent-peer")
					continue
				}
				if tp.Bool(1, 3, "garbage") {
					// garbage instead of a TLS handshake
					g := make([]byte, tp.Intn(300, "glen"))
					rand.Read(g)
					raw.Write(g)
					raw.Close()
					continue
				}
				cfg := nw.cl.Auth.NTSKEFetcher.TLSConfig.Clone()
				cfg.NextProtos = []string{keALPN}
				tc := tls.Client(raw, cfg)
				raw.SetDeadline(time.Now().Add(time.Second))
				if err := tc.Handshake(); err != nil {
					raw.Close()
					continue
				}
				// a hostile record stream
				var msg []byte
				nrec := tp.Intn(6, "nrec")
				for k := 0; k < nrec; k++ {
					typ := []uint16{0, 1, 2, 3, 4, 5, 6, 7, 99, 0x7fff}[tp.Intn(10, "rtype")]
					body := make([]byte, []int{0, 1, 2, 3, 4, 100, 1000}[tp.Intn(7, "rlen")])
					rand.Read(body)
					rc := keRecord{Type: typ, Critical: tp.Bool(1, 2, "crit"), Body: body}
					b := rc.bytes()
					if tp.Bool(1, 4, "liar") {
						binary.BigEndian.PutUint16(b[2:], uint16(tp.Intn(65536, "lielen"))) // length that does not match
					}
					msg = append(msg, b...)
				}
				if tp.Bool(1, 2, "eom") {
					msg = append(msg, keRecord{Type: 0, Critical: true}.bytes()...)
				}
				tc.Write(msg)
				if tp.Bool(1, 2, "hangup") {
					tc.Close()
				} else {
					// read whatever comes back, then go away
					buf := make([]byte, 4096)
					tc.Read(buf)
					tc.Close()
				}
			}
			// sentinel: a well-formed key exchange by the real client still succeeds
			var f ntske.Fetcher
			f.TLSConfig = *nw.cl.Auth.NTSKEFetcher.TLSConfig.Clone()
			f.Port = fmt.Sprint(kePort)
			f.Log = quietLog()
			var data ntske.Data
			var err error
			fetched := false
			w.goSafe(fmt.Sprintf("sentinel%d", round), func() {
				data, err = f.FetchData(context.Background())
				fetched = true
			})
			// (bounded wait: a server stuck behind a silent peer never answers)
			for k := 0; k < 40 && !fetched; k++ {
				if r.Sleep(fmt.Sprintf("sentinel-wait:%d:%d", round, k), w.cli.Node, 250*time.Millisecond).Killed {
					return
				}
			}
			if !fetched {
				r.Fail("C08", "ntske-server/sentinel-unanswered", "after %d hostile connections (%d of them silent and still open) a well-formed key exchange got no answer within 10 s", crafted, len(silent))
				return
			}
			if err != nil || len(data.Cookie) == 0 {
				r.Fail("C08", "ntske-server/sentinel-failed", "after %d hostile connections a well-formed key exchange failed: %v", crafted, err)
				return
			}
			sentinels++
			r.Probe("sentinel-answered")
		}
	})
	c08Finish(r, "ntske-server")
	r.Count("crafted", int64(crafted))
	r.FaultN("hostile-input", int64(crafted))
	return map[string]any{"hostile_connections": crafted, "sentinel_exchanges": sentinels}
}

// ---- clients facing a hostile peer -------------------------------------------------------------

func c08IPClient(r *simcore.Run, tp *simcore.Tape) map[string]any {
	useNTS := tp.Bool(1, 2, "nts")
	var w *ipWorld
	var cl *client.IPClient
	if useNTS {
		nw := newNTSWorld(r, 1)
		w, cl = nw.ipWorld, nw.cl
	} else {
		w = newIPWorld(r, 0, 0)
		w.startListeners(1, nil)
		cl = &client.IPClient{Log: quietLog(), InterleavedMode: tp.Bool(1, 2, "il")}
	}
	crafted := 0
	w.net.Intercept = func(d *simnet.Datagram) ([]simnet.Route, bool) {
		if d.SrcConn == nil || d.SrcConn.Host() != w.srv || len(d.Payload) < 48 {
			return nil, false
		}
		if !tp.Bool(2, 3, "hostile?") {
			return nil, false
		}
		var routes []simnet.Route
		for i := 0; i < 1+tp.Intn(2, "n"); i++ {
			var pl []byte
			switch tp.Intn(4, "kind") {
			case 0:
				pl = make([]byte, tp.Intn(1100, "len"))
				rand.Read(pl)
			case 1:
				pl = c08Mutate(tp, d.Payload)
			case 2: // hostile extension field lengths in an NTS response
				pl = append([]byte(nil), d.Payload...)
				if fs := ntsWalk(pl); len(fs) > 0 {
					f := fs[tp.Intn(len(fs), "field")]
					binary.BigEndian.PutUint16(pl[f.off+2:], []uint16{0, 1, 3, 4, 5, 0xffff, uint16(len(f.body))}[tp.Intn(7, "flen")])
					if f.typ == 0x0404 && len(f.body) >= 4 {
						binary.BigEndian.PutUint16(pl[f.off+4+2*tp.Intn(2, "which"):], []uint16{0, 1, 15, 17, 0xffff}[tp.Intn(5, "alen")])
					}
				}
			default:
				pl = append([]byte(nil), d.Payload[:tp.Intn(len(d.Payload)+1, "trunc")]...)
			}
			routes = append(routes, simnet.Route{D: w.net.NewDatagram(d.Src, d.Dst, pl, "hostile"), Delay: time.Duration(30+10*i) * time.Microsecond})
			crafted++
		}
		routes = append(routes, simnet.Route{D: d, Delay: 200 * time.Microsecond})
		return routes, true
	}
	ok := 0
	w.goSafe("driver", func() {
		defer r.Finish()
		for k := 0; k < 14 && r.Violation() == nil; k++ {
			if r.Sleep(fmt.Sprintf("gap:%d", k), w.cli.Node, time.Duration(tp.Range(int64(10*time.Millisecond), int64(time.Second), "gap"))).Killed {
				return
			}
			if _, _, err := w.measureIP(cl, 300*time.Millisecond); err == nil {
				ok++
			}
		}
		// sentinel: with the attacker gone the client still measures
		w.net.Intercept = nil
		for k := 0; k < 3; k++ {
			if _, _, err := w.measureIP(cl, 300*time.Millisecond); err == nil {
				r.Probe("sentinel-answered")
				return
			}
		}
		r.Fail("C08", "ip-client/stuck", "after hostile responses the client cannot complete a clean exchange any more")
	})
	c08Finish(r, "ip-client")
	r.Count("crafted", int64(crafted))
	r.FaultN("hostile-input", int64(crafted))
	return map[string]any{"hostile_responses": crafted, "measurements_ok": ok, "nts": useNTS}
}

func c08SCIONClient(r *simcore.Run, tp *simcore.Tape) map[string]any {
	scDrawFamily(r)
	w := newSCIONWorld(r, 0, 1)
	auth := tp.Bool(1, 2, "auth")
	w.startServers(1, auth, 0, nil, false)
	cl := &client.SCIONClient{Log: quietLog(), InterleavedMode: tp.Bool(1, 2, "il")}
	if auth {
		cl.Auth.Enabled = true
		cl.Auth.DRKeyFetcher = scion.NewFetcher(w.dc)
	}
	var segs []int
	if tp.Bool(2, 3, "path") {
		segs = []int{2 + tp.Intn(4, "h")}
	}
	path := w.mkPath(0, segs, 1, scCliIA, scSrvIA)
	laddr, raddr := w.udpAddrs()
	crafted := 0
	hostile := true
	c08LastReqTx = time.Time{}
	w.onRouter = func(p *scionPkt) (bool, []byte) {
		if p.toSrv && p.isUDP {
			if q, ok := decodeNTP(p.pld); ok {
				c08LastReqTx = ntp.TimeFromTime64(q.TransmitTime, time.Now())
			}
		}
		if p.toSrv || !hostile || !tp.Bool(2, 3, "hostile?") {
			return false, nil
		}
		crafted++
		raw := p.d.Payload
		switch tp.Intn(8, "how") {
		case 0, 1:
			return false, c08Mutate(tp, raw)
		case 2:
			m := append([]byte(nil), raw...)
			if len(m) > 9 {
				m[9] = []byte{0x11, 0x22, 0x12, 0x21, 0x33, 0x44}[tp.Intn(6, "atype")]
			}
			return false, m
		case 3, 4: // rebuild the reply with hostile end-to-end options
			rp := parseSCION(raw)
			if !rp.ok || !rp.isUDP {
				return false, nil
			}
			withAuth, withTS := -1, -1
			if tp.Bool(1, 2, "authopt") {
				withAuth = []int{0, 4, 5, 27, 28, 29, 40}[tp.Intn(7, "authlen")]
			}
			if tp.Bool(2, 3, "tsopt") {
				withTS = []int{0, 8, 15, 16, 17, 32, 63, 64, 65, 64, 64, 64}[tp.Intn(12, "tslen")]
			}
			return false, c08SCIONReply(tp, rp, withAuth, withTS)
		case 5:
			m := append([]byte(nil), raw...)
			if len(m) > 8 {
				m[8] = []byte{0, 1, 2, 3, 4, 0xff}[tp.Intn(6, "ptype")]
			}
			return false, m
		default:
			return false, raw[:tp.Intn(len(raw)+1, "trunc")]
		}
	}
	ok := 0
	w.goSafe("driver", func() {
		defer r.Finish()
		one := func() error {
			ctx, cancel := simsync.WithTimeout(context.Background(), 300*time.Millisecond)
			defer cancel()
			_, _, err := cl.VerifMeasureSCION(ctx, laddr, raddr, path)
			return err
		}
		for k := 0; k < 14 && r.Violation() == nil; k++ {
			if r.Sleep(fmt.Sprintf("gap:%d", k), w.cli.Node, time.Duration(tp.Range(int64(10*time.Millisecond), int64(time.Second), "gap"))).Killed {
				return
			}
			if one() == nil {
				ok++
			}
		}
		hostile = false
		for k := 0; k < 3; k++ {
			if one() == nil {
				r.Probe("sentinel-answered")
				return
			}
		}
		r.Fail("C08", "scion-client/stuck", "after hostile responses the client cannot complete a clean exchange any more")
	})
	c08Finish(r, "scion-client")
	r.Count("crafted", int64(crafted))
	r.FaultN("hostile-input", int64(crafted))
	return map[string]any{"hostile_responses": crafted, "measurements_ok": ok, "auth": auth}
}

// c08SCIONReply re-serialises a reply with chosen end-to-end options.
// c08LastReqTx is the transmit timestamp the SCION client's latest request carried (set by
// the scion-client world; an on-path adversary sees it).
var c08LastReqTx time.Time

func c08SCIONReply(tp *simcore.Tape, rp *scionPkt, withAuth, withTS int) []byte {
	s := rp.scn
	buffer := gopacket.NewSerializeBuffer()
	opts := gopacket.SerializeOptions{ComputeChecksums: true, FixLengths: true}
	gopacket.Payload(rp.pld).SerializeTo(buffer, opts)
	u := rp.udp
	u.SetNetworkLayerForChecksum(&s)
	u.SerializeTo(buffer, opts)
	s.NextHdr = slayers.L4UDP
	e := slayers.EndToEndExtn{}
	e.NextHdr = slayers.L4UDP
	if withAuth >= 0 {
		data := make([]byte, withAuth)
		rand.Read(data)
		if withAuth >= 5 {
			binary.BigEndian.PutUint32(data, scion.PacketAuthSPIServer)
			data[4] = scion.PacketAuthAlgorithm
		}
		e.Options = append(e.Options, &slayers.EndToEndOption{OptType: slayers.OptTypeAuthenticator, OptData: data, OptAlign: [2]uint8{4, 2}})
	}
	if withTS >= 0 {
		data := make([]byte, withTS)
		rand.Read(data)
		if withTS >= 16 {
			binary.LittleEndian.PutUint64(data[0:], []uint64{uint64(withTS), 64, 32, 17, 16, 15, 8, 1, 0, 1 << 63, 1<<64 - 1}[tp.Intn(11, "cmsglen")])
			// level: SOL_SOCKET, or something else (0, SOL_IPV6); type: the two timestamp kinds, or another
			binary.LittleEndian.PutUint32(data[8:], uint32([]int{1, 1, 0, 41}[tp.Intn(4, "cmsglevel")]))
			binary.LittleEndian.PutUint32(data[12:], uint32([]int{65, 35, 0, 2}[tp.Intn(4, "cmsgtype")]))
			if withTS >= 64 && tp.Bool(1, 2, "plausible") {
				// a well-formed software timestamp far in the past, or with two of the three slots set
				for i := 16; i < 64; i++ {
					data[i] = 0
				}
				binary.LittleEndian.PutUint64(data[16:], uint64(946684800+tp.Intn(100, "sec")))
				if tp.Bool(1, 2, "twoslots") {
					binary.LittleEndian.PutUint64(data[48:], 12345)
				}
			}
			if withTS == 64 && tp.Bool(1, 2, "wellformed") {
				// a perfectly well-formed SO_TIMESTAMPING_NEW message (as the real forwarder writes it)
				// whose software timestamp is chosen by the sender: the transmit time the request itself
				// carried (plus a few nanoseconds), the present instant, or a little before / after it
				for i := 0; i < 64; i++ {
					data[i] = 0
				}
				binary.LittleEndian.PutUint64(data[0:], 64)
				binary.LittleEndian.PutUint32(data[8:], 1)
				binary.LittleEndian.PutUint32(data[12:], 65)
				ts := time.Now()
				switch tp.Pick([]uint64{3, 1, 1, 1}, "wfkind") {
				case 0:
					if !c08LastReqTx.IsZero() {
						ts = c08LastReqTx.Add(time.Duration(tp.Intn(4, "wfns")))
					}
				case 1:
					ts = ts.Add(-time.Duration(tp.Range(0, int64(time.Millisecond), "wfback")))
				case 2:
					ts = ts.Add(time.Duration(tp.Range(0, int64(time.Second), "wffwd")))
				}
				binary.LittleEndian.PutUint64(data[16:], uint64(ts.Unix()))
				binary.LittleEndian.PutUint64(data[24:], uint64(ts.Nanosecond()))
			}
		}
		e.Options = append(e.Options, &slayers.EndToEndOption{OptType: scion.OptTypeTimestamp, OptData: data})
	}
	if len(e.Options) > 0 {
		if err := e.SerializeTo(buffer, opts); err == nil {
			s.NextHdr = slayers.End2EndClass
		}
	}
	if err := s.SerializeTo(buffer, opts); err != nil {
		return rp.d.Payload
	}
	return append([]byte(nil), buffer.Bytes()...)
}

func c08CSPTPClient(r *simcore.Run, tp *simcore.Tape) map[string]any {
	w := newIPWorld(r, 0, 0)
	// a scripted CSPTP server (the repository's own does not answer yet)
	ev, _ := w.net.Listen(hp(ipSrvIP, csptp.EventPortIP), false)
	gn, _ := w.net.Listen(hp(ipSrvIP, csptp.GeneralPortIP), false)
	crafted := 0
	serve := func(c *simnet.UDPConn, tag string) {
		w.goSafe(tag, func() {
			buf := make([]byte, 200)
			for {
				n, from, err := c.ReadFromUDPAddrPort(buf)
				if err != nil {
					return
				}
				req := append([]byte(nil), buf[:n]...)
				for i := 0; i < 1+tp.Intn(3, "nresp"); i++ {
					var pl []byte
					switch tp.Intn(5, "kind") {
					case 0:
						pl = make([]byte, tp.Intn(120, "len"))
						rand.Read(pl)
					case 1: // the request echoed back, truncated, with a consistent length field
						pl = append([]byte(nil), req[:tp.Intn(len(req)+1, "trunc")]...)
						if len(pl) >= 4 {
							binary.BigEndian.PutUint16(pl[2:], uint16(len(pl)))
						}
					case 2:
						pl = c08Mutate(tp, req)
					case 3: // a four-byte datagram that claims to be a Follow_Up of length 4
						pl = []byte{csptp.MessageTypeFollowUp, csptp.PTPVersion, 0, 4}
					default:
						pl = req
					}
					c.WriteToUDPAddrPort(pl, from)
					crafted++
				}
			}
		})
	}
	serve(ev, "ev")
	serve(gn, "gn")
	cl := &client.CSPTPClientIP{Log: quietLog()}
	w.goSafe("driver", func() {
		defer r.Finish()
		for k := 0; k < 10 && r.Violation() == nil; k++ {
			if r.Sleep(fmt.Sprintf("gap:%d", k), w.cli.Node, 20*time.Millisecond).Killed {
				return
			}
			ctx, cancel := simsync.WithTimeout(context.Background(), 200*time.Millisecond)
			cl.MeasureClockOffset(ctx, netip.MustParseAddr(ipCliIP), netip.MustParseAddr(ipSrvIP))
			cancel()
			r.Probe("sentinel-answered") // the call returned
		}
	})
	c08Finish(r, "csptp-client")
	r.Count("crafted", int64(crafted))
	r.FaultN("hostile-input", int64(crafted))
	return map[string]any{"hostile_responses": crafted}
}

func c08KEClient(r *simcore.Run, tp *simcore.Tape) map[string]any {
	// the C20 world's scripted peer with hostile record streams; the client (IP, or SCION
	// every third run) then builds and sends an NTS request from whatever the exchange left
	overSCION := tp.Bool(1, 3, "ke-over-scion")
	var (
		nw      *simnet.Net
		srvIP   string
		spawn   func(string, func())
		cliNode *simcore.Node
		measure func()
		pool    *x509.CertPool
		cert    tls.Certificate
	)
	if overSCION {
		scDrawFamily(r)
		w := newSCIONWorld(r, 0, 1)
		w.net.TLSClientHost = w.cli
		w.net.Names = map[string]netip.Addr{keHost: netip.MustParseAddr(scSrvIP)}
		cert, pool = mkCert([]string{keHost}, []string{scSrvIP})
		w.startServers(1, false, 0, ntske.NewProvider(), false)
		nw, srvIP, spawn, cliNode = w.net, scSrvIP, w.goSafe, w.cli.Node
		cl := &client.SCIONClient{Log: quietLog(), Filter: &recFilter{}}
		cl.Auth.NTSEnabled = true
		cl.Auth.NTSKEFetcher.TLSConfig = tls.Config{NextProtos: []string{keALPN}, ServerName: keHost, MinVersion: tls.VersionTLS13, RootCAs: pool}
		cl.Auth.NTSKEFetcher.Port = fmt.Sprint(kePort)
		cl.Auth.NTSKEFetcher.Log = quietLog()
		var segs []int
		if tp.Bool(2, 3, "path") {
			segs = []int{2 + tp.Intn(5, "h")}
		}
		path := w.mkPath(0, segs, 1, scCliIA, scSrvIA)
		measure = func() {
			ctx, cancel := simsync.WithTimeout(context.Background(), 200*time.Millisecond)
			defer cancel()
			laddr, raddr := w.udpAddrs()
			tag := simcore.Tag()
			client.MeasureClockOffsetSCION(ctx, quietLog(), []*client.SCIONClient{cl}, laddr, raddr, []snet.Path{path})
			simcore.SetTag(tag)
		}
		r.Probe("ntske-client-over-scion")
	} else {
		w := newIPWorld(r, 0, 0)
		w.net.TLSClientHost = w.cli
		w.net.Names = map[string]netip.Addr{keHost: netip.MustParseAddr(ipSrvIP)}
		cert, pool = mkCert([]string{keHost}, []string{ipSrvIP})
		w.startListeners(1, ntske.NewProvider())
		nw, srvIP, spawn, cliNode = w.net, ipSrvIP, w.goSafe, w.cli.Node
		cl := &client.IPClient{Log: quietLog()}
		configureIPClientNTS(cl, fmt.Sprintf("%s:%d", keHost, kePort), quietLog())
		cl.Auth.NTSKEFetcher.TLSConfig.RootCAs = pool
		measure = func() { w.measureIP(cl, 200*time.Millisecond) }
	}
	lst, _ := nw.ListenStream(hp(srvIP, kePort), nil)
	crafted := 0
	spawn("ke-accept", func() {
		for k := 0; ; k++ {
			raw, err := lst.AcceptRaw()
			if err != nil {
				return
			}
			spawn(fmt.Sprintf("ke%d", k), func() {
				tc := tls.Server(raw, &tls.Config{Certificates: []tls.Certificate{cert}, MinVersion: tls.VersionTLS13, NextProtos: []string{keALPN}})
				if tc.Handshake() != nil {
					raw.Close()
					return
				}
				buf := make([]byte, 256)
				tc.Read(buf)
				var msg []byte
				msg = append(msg, keRecord{Type: 1, Critical: true, Body: u16(0)}.bytes()...)
				if tp.Bool(3, 4, "aead") {
					msg = append(msg, keRecord{Type: 4, Critical: true, Body: u16(15)}.bytes()...)
				}
				wellFormed := tp.Bool(1, 3, "well-formed-rest")
				for i := 0; i < tp.Intn(10, "nrec"); i++ {
					typ := []uint16{5, 5, 5, 6, 7, 4, 99}[tp.Intn(7, "rtype")]
					if wellFormed && typ != 6 && typ != 7 {
						typ = 5
					}
					var body []byte
					switch typ {
					case 5:
						body = make([]byte, []int{0, 1, 3, 100, 124, 300, 1000, 2000}[tp.Intn(8, "cklen")])
						if wellFormed {
							body = make([]byte, 100+4*tp.Intn(8, "ckl"))
						}
					case 6:
						body = [][]byte{[]byte(srvIP), []byte("not-an-ip"), {}, []byte("::1"), []byte("256.1.1.1"), []byte("time.example.net"), []byte("fe80::1%eth0"), []byte("1-ff00:0:111,10.0.0.1")}[tp.Intn(8, "srv")]
					case 7:
						body = [][]byte{u16(123), {1}, {}, u16(0), u16(65535)}[tp.Intn(5, "portb")]
					case 4:
						body = [][]byte{u16(15), {}, {15}, {0, 15, 0, 16}}[tp.Intn(4, "aeadb")]
					default:
						body = make([]byte, tp.Intn(50, "ul"))
					}
					if typ != 6 && typ != 7 {
						rand.Read(body[min(len(body), 20):])
					}
					msg = append(msg, keRecord{Type: typ, Critical: typ == 4, Body: body}.bytes()...)
				}
				if wellFormed || tp.Bool(3, 4, "eom") {
					msg = append(msg, keRecord{Type: 0, Critical: true}.bytes()...)
				}
				tc.Write(msg)
				tc.Close()
				crafted++
			})
		}
	})
	spawn("driver", func() {
		defer r.Finish()
		for k := 0; k < 8 && r.Violation() == nil; k++ {
			if r.Sleep(fmt.Sprintf("gap:%d", k), cliNode, 50*time.Millisecond).Killed {
				return
			}
			measure()
			r.Probe("sentinel-answered") // the call returned
		}
	})
	c08Finish(r, "ntske-client")
	r.Count("crafted", int64(crafted))
	r.FaultN("hostile-input", int64(crafted))
	return map[string]any{"hostile_exchanges": crafted, "over_scion": overSCION}
}

// c08RawNTSRequest builds an NTS request with one cookie and nph placeholders with the
// harness's own encoder (RFC 8915 field layout) and seals it with miscreant.
func c08RawNTSRequest(hdr []byte, cookie []byte, nph int, c2s []byte) []byte {
	b := append([]byte(nil), hdr[:48]...)
	put := func(typ uint16, body []byte) {
		for len(body)%4 != 0 {
			body = append(body, 0)
		}
		b = append(b, byte(typ>>8), byte(typ), byte((4+len(body))>>8), byte(4+len(body)))
		b = append(b, body...)
	}
	uid := make([]byte, c08UIDLen)
	rand.Read(uid)
	put(0x0104, uid)
	if c08UnknownField != nil {
		put(0x4242, c08UnknownField) // an extension field of a type this project does not know
	}
	put(0x0204, cookie)
	for i := 0; i < nph; i++ {
		put(0x0304, make([]byte, len(cookie)))
	}
	nonce := make([]byte, 16)
	rand.Read(nonce)
	ct := sealSIV(c2s, nonce, c08EncFields, b)
	body := append([]byte{0, 16, byte(len(ct) >> 8), byte(len(ct))}, nonce...)
	body = append(body, ct...)
	put(0x0404, body)
	return b
}

var _ = snet.Path(nil)
var _ = net.IP{}
var _ = ntp.PacketLen

func init() {
	simcore.Registry["C08"] = &simcore.Spec{
		World:      c08World,
		NonTrivial: func(r *simcore.Run) bool { return r.Counts["crafted"] >= 2 },
	}
}
