//go:build go1.25

package worlds

import (
	"context"
	"crypto/sha256"
	"fmt"
	"net"
	"net/netip"
	"time"

	"github.com/google/gopacket"
	"github.com/scionproto/scion/pkg/addr"
	"github.com/scionproto/scion/pkg/daemon"
	"github.com/scionproto/scion/pkg/drkey"
	"github.com/scionproto/scion/pkg/drkey/generic"
	"github.com/scionproto/scion/pkg/scrypto/cppki"
	"github.com/scionproto/scion/pkg/segment/iface"
	"github.com/scionproto/scion/pkg/slayers"
	spathp "github.com/scionproto/scion/pkg/slayers/path"
	"github.com/scionproto/scion/pkg/slayers/path/empty"
	pscion "github.com/scionproto/scion/pkg/slayers/path/scion"
	"github.com/scionproto/scion/pkg/snet"
	spath "github.com/scionproto/scion/pkg/snet/path"

	"example.com/scion-time/core/server"
	"example.com/scion-time/net/ntske"
	"example.com/scion-time/net/scion"
	"example.com/scion-time/net/udp"

	"verif.local/sim/simclock"
	"verif.local/sim/simcore"
	"verif.local/sim/simnet"
)

// scionWorld: real runSCIONServer listeners (service port and, optionally, the
// end-host port 30041 forwarder), real SCION clients, scripted relay routers
// (one per offered path) that forward and record, and a mock SCION daemon that
// serves DRKeys derived with the real generic.Deriver.

// Host addresses of the SCION worlds. A world may ask for IPv6 hosts by setting scV6Next
// before it calls newSCIONWorld (runs execute one after the other in a worker process);
// every other world gets the IPv4 set.
var (
	scSrvIP   = "10.0.0.1"
	scCliIP   = "10.0.0.2"
	scAtkIP   = "10.0.0.66"
	scOtherIP = "10.0.0.9" // another host of the server's AS
	scV6Next  = false
	scV6      = false
)

func scUseFamily(v6 bool) {
	scV6 = v6
	if v6 {
		scSrvIP, scCliIP, scAtkIP, scOtherIP = "fd00:1::1", "fd00:1::2", "fd00:1::66", "fd00:1::9"
	} else {
		scSrvIP, scCliIP, scAtkIP, scOtherIP = "10.0.0.1", "10.0.0.2", "10.0.0.66", "10.0.0.9"
	}
}

// scDrawFamily lets the run's tape decide the address family of the next SCION world.
func scDrawFamily(r *simcore.Run) {
	scV6Next = r.Tape.Bool(1, 4, "ipv6")
	if scV6Next {
		r.Probe("ipv6-hosts")
	}
}

// scRouterIP is the underlay address of border router i.
func scRouterIP(i int) string {
	if scV6 {
		return fmt.Sprintf("fd00:2::%x", i+1)
	}
	return fmt.Sprintf("10.0.1.%d", i+1)
}

// hp joins a host address and a port ("[v6]:port" for IPv6).
func hp(ip string, port int) string { return net.JoinHostPort(ip, fmt.Sprint(port)) }

const (
	scSvcPort    = 10123
	scEndhost    = 30041
	scRouterPort = 30001
)

var (
	scCliIA = addr.MustParseIA("1-ff00:0:111")
	scSrvIA = addr.MustParseIA("1-ff00:0:112")
	scOthIA = addr.MustParseIA("2-ff00:0:222")
)

type scionPkt struct {
	d      *simnet.Datagram
	router int
	toSrv  bool
	scn    slayers.SCION
	udp    slayers.UDP
	scmp   slayers.SCMP
	e2e    slayers.EndToEndExtn
	hasE2E bool
	isUDP  bool
	isSCMP bool
	pld    []byte
	ok     bool
}

type scionWorld struct {
	r   *simcore.Run
	net *simnet.Net

	srv, cli, atk  *simnet.Host
	routers        []*simnet.UDPConn
	routerHosts    []*simnet.Host
	listeners      []*simnet.UDPConn
	dc             *mockDaemon
	useForwarder   bool // replies reach the client through the real end-host forwarder on 30041
	realDispatcher bool // ... started by StartSCIONDispatcher itself
	srvNoDaemon    bool // the listeners were started without a reachable SCION daemon
	// toEndhostPort: the routers hand every packet for the server to its end-host port 30041
	// (where the service runs listeners of its own), whatever the L4 destination port
	toEndhostPort bool

	// every SCION packet seen at a router, in order
	seen []*scionPkt
	// hooks for worlds
	onRouter func(p *scionPkt) (drop bool, replace []byte)
	// extraOut, set by onRouter, is sent to the same destination ahead of the packet itself
	extraOut [][]byte
}

func newSCIONWorld(r *simcore.Run, srvOff time.Duration, nrouters int) *scionWorld {
	activate(r)
	resetProm()
	server.VerifResetTSS()
	scUseFamily(scV6Next)
	scV6Next = false
	w := &scionWorld{r: r, net: simnet.New(r)}
	w.srv = w.net.AddHost("srv", simclock.New(srvOff, 0, 1e-5), scSrvIP)
	w.cli = w.net.AddHost("cli", simclock.New(0, 0, 1e-5), scCliIP)
	w.atk = w.net.AddHost("atk", simclock.New(0, 0, 1e-5), scAtkIP)
	r.TimerNode = w.cli.Node
	simclock.Global.Set(func() *simclock.Clock {
		n := r.Current()
		if n == nil {
			return w.cli.Clock
		}
		return n.Clock.(*simclock.Clock)
	})
	w.dc = &mockDaemon{secret: []byte("sim drkey secret")}
	for i := 0; i < nrouters; i++ {
		ip := scRouterIP(i)
		h := w.net.AddHost(fmt.Sprintf("br%d", i), simclock.New(0, 0, 0), ip)
		c, err := w.net.Listen(hp(ip, scRouterPort), false)
		if err != nil {
			panic(err)
		}
		w.routers = append(w.routers, c)
		w.routerHosts = append(w.routerHosts, h)
		w.startRouter(i, c)
	}
	return w
}

func (w *scionWorld) goSafe(tag string, f func()) {
	go func() {
		simcore.SetTag(tag)
		defer func() {
			if p := recover(); p != nil {
				st := string(debugStack())
				w.r.Fail("panic", simcore.SiteFromStack(st)+":"+simcore.PanicClass(p), "goroutine %s: %v\n%s", tag, p, st)
			}
		}()
		f()
	}()
}

// startServers runs n real SCION listeners on the service port (with DRKey fetcher
// when auth is set) and, when forwarder is set, one on the end-host port of the
// client's host in dispatcher mode.
func (w *scionWorld) startServers(n int, auth bool, dscp uint8, provider *ntske.Provider, forwarder bool) {
	if auth && w.r.Tape.Bool(1, 3, "real-start") {
		// the service's own start-up: StartSCIONServer opens the sockets (eight on the service
		// port, eight on the end-host port), gives each listener its DRKey fetcher and starts
		// the loops; the daemon it connects to is the world's
		simnet.Daemon = func(string) daemon.Connector { return w.dc }
		daemonAddr := "sim-daemon"
		if w.r.Tape.Bool(1, 4, "no-daemon-at-start") {
			// the SCION daemon could not be reached when the service started (or none is
			// configured): the listeners run without a connector, which to a request with an
			// authenticator is the same as a daemon that is down
			daemonAddr = ""
			w.srvNoDaemon = true
			w.r.Fault("drkey-daemon-unreachable-at-start")
		}
		w.net.Setup = true
		server.StartSCIONServer(context.Background(), quietLog(), daemonAddr,
			&net.UDPAddr{IP: net.ParseIP(scSrvIP), Port: scSvcPort}, dscp, provider)
		w.net.Setup = false
		w.r.Probe("listeners-started-by-the-service")
		resetProm() // the forwarder below registers the same collectors again
		w.startForwarder(server.VerifNewSCIONServerMetrics(), forwarder)
		return
	}
	m := server.VerifNewSCIONServerMetrics()
	for i := 0; i < n; i++ {
		c, err := w.net.Listen(hp(scSrvIP, scSvcPort), true)
		if err != nil {
			panic(err)
		}
		w.listeners = append(w.listeners, c)
		var f *scion.Fetcher
		if auth {
			f = scion.NewFetcher(w.dc)
		}
		conn := c
		w.goSafe(fmt.Sprintf("S%d", i), func() {
			server.VerifRunSCIONServer(context.Background(), quietLog(), m, conn, "", scSvcPort, dscp, f, provider)
		})
	}
	// the server's own end-host port listener (as StartSCIONServer starts it)
	ce, err := w.net.Listen(hp(scSrvIP, scEndhost), true)
	if err != nil {
		panic(err)
	}
	var fe *scion.Fetcher
	if auth {
		fe = scion.NewFetcher(w.dc)
	}
	w.goSafe("SE", func() {
		server.VerifRunSCIONServer(context.Background(), quietLog(), m, ce, "", scSvcPort, dscp, fe, provider)
	})
	w.startForwarder(m, forwarder)
}

func (w *scionWorld) startForwarder(m *server.VerifSCIONServerMetrics, forwarder bool) {
	w.useForwarder = forwarder
	if forwarder && w.r.Tape.Bool(1, 2, "real-dispatcher") {
		// the client side's own start-up of the end-host forwarder (as runClient calls it: the
		// configured local address, port 0)
		resetProm()
		w.net.Setup = true
		server.StartSCIONDispatcher(context.Background(), quietLog(), &net.UDPAddr{IP: net.ParseIP(scCliIP), Port: 0})
		w.net.Setup = false
		w.realDispatcher = true
		w.r.Probe("forwarder-started-by-the-service")
		return
	}
	if forwarder {
		cf, err := w.net.Listen(hp(scCliIP, scEndhost), false)
		if err != nil {
			panic(err)
		}
		w.goSafe("FWD", func() {
			// StartSCIONDispatcher: localHostPort = end-host port, no fetcher, no provider
			server.VerifRunSCIONServer(context.Background(), quietLog(), m, cf, "", scEndhost, 0, nil, nil)
		})
	}
}

func parseSCION(b []byte) *scionPkt {
	p := &scionPkt{}
	var hbh slayers.HopByHopExtnSkipper
	p.scn.RecyclePaths()
	parser := gopacket.NewDecodingLayerParser(slayers.LayerTypeSCION, &p.scn, &hbh, &p.e2e, &p.udp, &p.scmp)
	parser.IgnoreUnsupported = true
	decoded := make([]gopacket.LayerType, 0, 4)
	if err := parser.DecodeLayers(b, &decoded); err != nil || len(decoded) < 2 {
		return p
	}
	for _, l := range decoded {
		switch l {
		case slayers.LayerTypeEndToEndExtn:
			p.hasE2E = true
		case slayers.LayerTypeSCIONUDP:
			p.isUDP = true
			p.pld = p.udp.Payload
		case slayers.LayerTypeSCMP:
			p.isSCMP = true
			p.pld = p.scmp.Payload
		}
	}
	p.ok = p.isUDP || p.isSCMP
	return p
}

// startRouter relays between the client's and the server's side and records.
func (w *scionWorld) startRouter(i int, c *simnet.UDPConn) {
	w.goSafe(fmt.Sprintf("BR%d", i), func() {
		buf := make([]byte, 9300)
		for {
			n, from, err := c.ReadFrom(buf)
			if err != nil {
				return
			}
			raw := append([]byte(nil), buf[:n]...)
			p := parseSCION(raw)
			p.d = c.LastRecv
			p.router = i
			if !p.ok {
				w.r.Log("router %d: undecodable packet of %d bytes from %v", i, n, from)
				continue
			}
			dstIP, _ := netip.AddrFromSlice(p.scn.RawDstAddr)
			p.toSrv = p.scn.DstIA == scSrvIA && dstIP.Unmap() == netip.MustParseAddr(scSrvIP)
			w.seen = append(w.seen, p)
			out := raw
			var extra [][]byte
			if w.onRouter != nil {
				drop, repl := w.onRouter(p)
				// what onRouter adds travels with this packet or not at all
				extra, w.extraOut = w.extraOut, nil
				if drop {
					continue
				}
				if repl != nil {
					out = repl
				}
			}
			var dst *net.UDPAddr
			port := 0
			if p.isUDP {
				port = int(p.udp.DstPort)
			} else {
				port = scEndhost
			}
			switch {
			case p.toSrv:
				dst = &net.UDPAddr{IP: net.ParseIP(scSrvIP), Port: port}
				if (port != scSvcPort && port != scEndhost) || w.toEndhostPort {
					dst.Port = scEndhost // a border router delivers unknown ports to the end-host port
				}
			case dstIP.Unmap() == netip.MustParseAddr(scCliIP):
				dst = &net.UDPAddr{IP: net.ParseIP(scCliIP), Port: port}
				if w.useForwarder {
					dst.Port = scEndhost
				}
			default:
				continue
			}
			for _, x := range extra {
				if _, err := c.WriteTo(x, dst); err != nil {
					return
				}
			}
			if _, err := c.WriteTo(out, dst); err != nil {
				return
			}
		}
	})
}

// mkPath builds an snet.Path through router i. kind: 0 = SCION path with the
// given segment lengths, 1 = empty path.
func (w *scionWorld) mkPath(router int, segLens []int, fpSalt int, srcIA, dstIA addr.IA) snet.Path {
	nh := &net.UDPAddr{IP: net.ParseIP(scRouterIP(router)), Port: scRouterPort}
	p := spath.Path{Src: srcIA, Dst: dstIA, NextHop: nh}
	if len(segLens) == 0 {
		p.DataplanePath = spath.Empty{}
	} else {
		raw := mkSCIONPathRaw(segLens, fpSalt)
		p.DataplanePath = spath.SCION{Raw: raw}
	}
	if fpSalt >= 0 {
		p.Meta.Interfaces = []snet.PathInterface{
			{ID: iface.ID(100 + fpSalt), IA: srcIA}, {ID: iface.ID(200 + fpSalt), IA: dstIA},
		}
	}
	return p
}

func mkSCIONPathRaw(segLens []int, salt int) []byte {
	d := pscion.Decoded{}
	nh := 0
	for i, l := range segLens {
		d.PathMeta.SegLen[i] = uint8(l)
		nh += l
		d.InfoFields = append(d.InfoFields, spathp.InfoField{ConsDir: i%2 == 0, SegID: uint16(1000*salt + i), Timestamp: uint32(1700000000 + i)})
	}
	for h := 0; h < nh; h++ {
		hf := spathp.HopField{ExpTime: 63, ConsIngress: uint16(h + 1), ConsEgress: uint16(h + 2)}
		copy(hf.Mac[:], []byte{byte(salt), byte(h), 3, 4, 5, 6})
		d.HopFields = append(d.HopFields, hf)
	}
	d.NumINF, d.NumHops = len(segLens), nh
	buf := make([]byte, d.Len())
	if err := d.SerializeTo(buf); err != nil {
		panic(err)
	}
	return buf
}

// reverseRaw reverses an encoded SCION path independently of the library's
// Reverse: segments and hop fields in opposite order, construction-direction
// flags flipped, current pointers mirrored.
func reverseRaw(raw []byte) ([]byte, error) {
	var d pscion.Decoded
	if err := d.DecodeFromBytes(raw); err != nil {
		return nil, err
	}
	var r pscion.Decoded
	ni, nh := d.NumINF, d.NumHops
	for i := ni - 1; i >= 0; i-- {
		inf := d.InfoFields[i]
		inf.ConsDir = !inf.ConsDir
		r.InfoFields = append(r.InfoFields, inf)
		r.PathMeta.SegLen[ni-1-i] = d.PathMeta.SegLen[i]
	}
	for h := nh - 1; h >= 0; h-- {
		r.HopFields = append(r.HopFields, d.HopFields[h])
	}
	r.NumINF, r.NumHops = ni, nh
	r.PathMeta.CurrINF = uint8(ni - 1 - int(d.PathMeta.CurrINF))
	r.PathMeta.CurrHF = uint8(nh - 1 - int(d.PathMeta.CurrHF))
	buf := make([]byte, r.Len())
	if err := r.SerializeTo(buf); err != nil {
		return nil, err
	}
	return buf, nil
}

func rawPathOf(s *slayers.SCION) []byte {
	if s.Path == nil || s.PathType == empty.PathType {
		return nil
	}
	b := make([]byte, s.Path.Len())
	if err := s.Path.SerializeTo(b); err != nil {
		return nil
	}
	return b
}

func (w *scionWorld) udpAddrs() (udp.UDPAddr, udp.UDPAddr) {
	return udp.UDPAddr{IA: scCliIA, Host: &net.UDPAddr{IP: net.ParseIP(scCliIP)}},
		udp.UDPAddr{IA: scSrvIA, Host: &net.UDPAddr{IP: net.ParseIP(scSrvIP), Port: scSvcPort}}
}

// ---- mock SCION daemon -------------------------------------------------------------

type mockDaemon struct {
	daemon.Connector // nil: only the DRKey calls are served
	secret           []byte
	calls            int
	// epochLen > 0: keys change every epochLen of (virtual) time, each valid for its epoch only
	epochLen time.Duration
	// failHostAS: the daemon is unavailable to the server side (Host-AS key requests fail)
	failHostAS bool
	failed     int
	lastHH     time.Time // the instant the last host-to-host key request named (a client's)
}

var errDaemonDown = fmt.Errorf("sim: SCION daemon unavailable")

func (m *mockDaemon) hostASAt(proto drkey.Protocol, srcIA, dstIA addr.IA, srcHost string, at time.Time) drkey.HostASKey {
	idx := int64(0)
	nb, na := time.Date(1990, 1, 1, 0, 0, 0, 0, time.UTC), time.Date(2200, 1, 1, 0, 0, 0, 0, time.UTC)
	if m.epochLen > 0 {
		idx = at.UnixNano() / int64(m.epochLen)
		nb = time.Unix(0, idx*int64(m.epochLen))
		na = nb.Add(m.epochLen)
	}
	h := sha256.Sum256([]byte(fmt.Sprintf("%s|%d|%s|%s|%s|%d", m.secret, proto, srcIA, dstIA, srcHost, idx)))
	k := drkey.HostASKey{ProtoId: proto, SrcIA: srcIA, DstIA: dstIA, SrcHost: srcHost,
		Epoch: drkey.Epoch{Validity: cppki.Validity{NotBefore: nb, NotAfter: na}}}
	copy(k.Key[:], h[:16])
	return k
}

func (m *mockDaemon) hostAS(proto drkey.Protocol, srcIA, dstIA addr.IA, srcHost string) drkey.HostASKey {
	return m.hostASAt(proto, srcIA, dstIA, srcHost, time.Now())
}

func (m *mockDaemon) DRKeyGetHostASKey(ctx context.Context, meta drkey.HostASMeta) (drkey.HostASKey, error) {
	m.calls++
	if m.failHostAS {
		m.failed++
		return drkey.HostASKey{}, errDaemonDown
	}
	return m.hostASAt(meta.ProtoId, meta.SrcIA, meta.DstIA, meta.SrcHost, meta.Validity), nil
}

func (m *mockDaemon) DRKeyGetHostHostKey(ctx context.Context, meta drkey.HostHostMeta) (drkey.HostHostKey, error) {
	m.calls++
	m.lastHH = meta.Validity
	has := m.hostASAt(meta.ProtoId, meta.SrcIA, meta.DstIA, meta.SrcHost, meta.Validity)
	k, err := generic.Deriver{Proto: meta.ProtoId}.DeriveHostHost(meta.DstHost, has.Key)
	if err != nil {
		return drkey.HostHostKey{}, err
	}
	return drkey.HostHostKey{ProtoId: meta.ProtoId, Epoch: has.Epoch, SrcIA: meta.SrcIA, DstIA: meta.DstIA,
		SrcHost: meta.SrcHost, DstHost: meta.DstHost, Key: k}, nil
}

// hostHostKeyFrom derives the host-to-host key from an arbitrary Host-AS key (what a forger
// does who guesses that the server fell back to some other first-level key).
func hostHostKeyFrom(hostAS drkey.Key, cliHost string) []byte {
	k, err := generic.Deriver{Proto: scion.DRKeyProtocolTS}.DeriveHostHost(cliHost, hostAS)
	if err != nil {
		return nil
	}
	return append([]byte(nil), k[:]...)
}

// hostHostKey is what the oracle uses: the key between server host and client host.
func (m *mockDaemon) hostHostKey(srvIA, cliIA addr.IA, srvHost, cliHost string) []byte {
	k, _ := m.DRKeyGetHostHostKey(context.Background(), drkey.HostHostMeta{ProtoId: scion.DRKeyProtocolTS, Validity: time.Now(),
		SrcIA: srvIA, DstIA: cliIA, SrcHost: srvHost, DstHost: cliHost})
	m.calls--
	return append([]byte(nil), k.Key[:]...)
}
