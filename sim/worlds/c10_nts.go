//go:build go1.25

package worlds

import (
	"bytes"
	"crypto/rand"
	"fmt"
	"testing"
	"time"

	"verif.local/sim/simcore"
	"verif.local/sim/simnet"
)

// W-nts for C10: the corruption fault is enumerated. Genuine NTS requests and
// responses captured in flight between the real client and the real listeners are
// re-delivered with every single bit flipped (positions partitioned over the runs
// of a batch), with length fields set to boundary values, reflected, and replayed.
// Requests are judged by whether a listener answers, responses by which datagram
// the client had consumed last when it reported an offset.

const c10PerRun = 128

// At pool level 8 a request and a reply carry one 124-byte cookie each.
const c10ReqLen, c10RespLen = 252, 252

func c10Total() int { return (c10ReqLen + c10RespLen) * 8 }

// authSpan returns the offset of the authenticator field and classifies byte i of
// packet p: true = a change must be rejected (authenticated header/extension bytes,
// nonce, ciphertext and the two length words that delimit them), false = the
// statement is silent (the authenticator's own extension header length).
func c10MustReject(p []byte, i int) (must bool, authPos int) {
	authPos = -1
	for _, f := range ntsWalk(p) {
		if f.typ == 0x0404 {
			authPos = f.off
		}
	}
	if authPos < 0 {
		return true, authPos
	}
	if i == authPos+2 || i == authPos+3 {
		return false, authPos
	}
	return true, authPos
}

func c10World(t *testing.T, r *simcore.Run) any {
	tp := r.Tape
	// The bit enumeration is run twice: runs 0..nEnum-1 over IP, runs nEnum..2*nEnum-1 over SCION
	// (real SCIONClient, real runSCIONServer listeners, relay router; tampered copies are
	// re-wrapped with consistent SCION/UDP lengths and checksum so that they reach the NTS
	// layer); of the sampled runs after that every 4th is over SCION.
	idx := int(r.Index)
	total := c10Total()
	nEnum := (total + c10PerRun - 1) / c10PerRun
	overSCION := false
	switch {
	case idx >= nEnum && idx < 2*nEnum:
		overSCION = true
		idx -= nEnum
	case idx >= 2*nEnum:
		overSCION = idx%4 == 1
	}
	var tr ntsTransport
	if overSCION {
		tr = ntsSCIONTransport{newNTSSCIONWorld(r, 2)}
		r.Probe("transport:scion")
	} else {
		ipDrawFamily(r)
		tr = ntsIPTransport{newNTSWorld(r, 2)}
	}
	net := tr.network()
	type mcase struct {
		onResp bool
		bit    int    // bit index, or -1 for a field mutation
		kind   string // "bit" | "len" | "reflect" | "replay" | "genuine"
		pos    int
		val    int
	}
	var cases []mcase
	mode := "enumerated"
	if idx < nEnum {
		for k := idx * c10PerRun; k < (idx+1)*c10PerRun && k < total; k++ {
			if k < c10ReqLen*8 {
				cases = append(cases, mcase{onResp: false, bit: k, kind: "bit"})
			} else {
				cases = append(cases, mcase{onResp: true, bit: k - c10ReqLen*8, kind: "bit"})
			}
		}
	} else {
		mode = "sampled"
		for k := 0; k < c10PerRun; k++ {
			c := mcase{onResp: tp.Bool(1, 2, "onresp")}
			switch tp.Pick([]uint64{6, 4, 1, 1, 1, 2, 2, 3, 1, 2, 2, 2, 2}, "kind") {
			case 12:
				// a longer nonce: the nonce length word raised, as many bytes inserted behind the
				// sixteen genuine ones, the field's length raised accordingly - any change to the
				// nonce has to be refused, also one that leaves its first sixteen bytes alone
				c.kind = "nonce-lengthened"
				c.val = []int{4, 8, 16}[tp.Intn(3, "nonceplus")]
			case 11:
				// fields slipped in right in front of the authenticator, whose own (unauthenticated)
				// length word is raised by as much: what the authenticator covers is what precedes
				// it on the wire, not what its length word leaves over
				c.kind = "inserted-before-authenticator"
				c.val = 1 + tp.Intn(7, "ninserted")
			case 10:
				c.kind, c.onResp = "header-changed-genuine-behind", false
				c.bit = tp.Intn(48*8, "hbit")
			case 0:
				c.kind, c.bit = "bit", tp.Intn(c10ReqLen*8, "bit")
			case 1:
				c.kind = "len"
				c.pos = tp.Intn(6, "lenfield")
				c.val = []int{0, 1, 3, 4, -4, 4 + 4, 0xffff, 16, 17, 15}[tp.Intn(10, "lenval")]
			case 2:
				c.kind, c.onResp = "reflect", true
			case 3:
				c.kind, c.onResp = "replay", true
			case 5:
				c.kind, c.onResp = "replay+uid", true
			case 6:
				c.kind, c.onResp = "genuine+trailing-cookie", true
			case 8:
				c.kind, c.onResp = "stripped", true
			case 9:
				c.kind, c.onResp = "zero-tail-cut", true
				c.val = 1 + tp.Intn(2, "ntail")
			case 7:
				c.kind, c.onResp = "resealed-uid", true
				c.val = tp.Intn(5, "uidvariant")
			default:
				c.kind = "genuine"
			}
			cases = append(cases, c)
		}
	}

	var capturedReq *simnet.Datagram    // genuine request of the current attempt
	var capturedReqHop *simnet.Datagram // ... as it is delivered to the listeners (over SCION: the router's copy)
	var genuineResp *simnet.Datagram    // genuine response of the current attempt
	var prevResp []byte                 // a genuine response to an earlier request (for replays)
	var tamper func(genuine []byte) ([]byte, string, bool)
	var injected, injected2 *simnet.Datagram
	twice := false
	curKind := ""
	var trailing []byte
	trailingOK := false
	var lastClosedRecv *simnet.Datagram
	replies := map[uint64]int{}
	net.OnSend = func(d *simnet.Datagram) {
		if tr.isRequest(d) {
			capturedReq = d
		}
		if tr.lastHopToServer(d) {
			capturedReqHop = d
		}
		if tr.isReply(d) {
			replies[d.Cause]++
		}
	}
	net.OnClose = func(c *simnet.UDPConn) {
		if c.Host().Node == tr.clientNode() {
			lastClosedRecv = c.LastRecv
		}
	}
	net.Intercept = func(d *simnet.Datagram) ([]simnet.Route, bool) {
		if tamper == nil || !tr.lastHopToClient(d) {
			return nil, false
		}
		if capturedReq == nil || tr.requestOf(d) != capturedReq.ID {
			return nil, false
		}
		genuineResp = d
		mut, _, ok := tamper(tr.ntp(d))
		if !ok {
			return nil, false
		}
		wrapped := tr.rewrap(d, mut)
		if wrapped == nil {
			return nil, false
		}
		injected = net.NewDatagram(d.Src, d.Dst, wrapped, "tampered response")
		r.Fault("response:" + curKind)
		if twice {
			// the tampered copy arrives twice (the second uses up the client's single retry), and the
			// genuine response does not arrive at all: the exchange must fail
			injected2 = net.NewDatagram(d.Src, d.Dst, append([]byte(nil), wrapped...), "tampered response, again")
			r.Fault("response-twice:" + curKind)
			return []simnet.Route{{D: injected, Delay: 60 * time.Microsecond}, {D: injected2, Delay: 90 * time.Microsecond}}, true
		}
		return []simnet.Route{{D: injected, Delay: 60 * time.Microsecond}, {D: d, Delay: 200 * time.Microsecond}}, true
	}

	flip := func(p []byte, bit int) []byte {
		q := append([]byte(nil), p...)
		q[bit/8] ^= 1 << (bit % 8)
		return q
	}
	// lenField returns the offset of the pos-th 16-bit length word of the packet:
	// extension lengths of the fields in order, then nonce and ciphertext lengths.
	lenField := func(p []byte, pos int) int {
		var offs []int
		for _, f := range ntsWalk(p) {
			offs = append(offs, f.off+2)
			if f.typ == 0x0404 {
				offs = append(offs, f.off+4, f.off+6)
			}
		}
		if len(offs) == 0 {
			return -1
		}
		return offs[pos%len(offs)]
	}
	checked, rejected, either := 0, 0, 0
	var samples []string
	tr.spawn("driver", func() {
		defer r.Finish()
		// a first clean exchange: completeness (the project's own packets are accepted)
		if err := tr.measure(300 * time.Millisecond); err != nil {
			r.Fail("C10", "genuine/rejected", "the first untampered NTS exchange failed: %v", err)
			return
		}
		r.Probe("genuine-accepted")
		if genuine := capturedReq; genuine != nil && len(tr.ntp(genuine)) != c10ReqLen {
			r.Fail("harness", "c10/request-length", "request at pool level 8 is %d bytes, enumeration assumes %d", len(tr.ntp(genuine)), c10ReqLen)
			return
		}
		for ci, c := range cases {
			if r.Violation() != nil {
				return
			}
			if r.Sleep(fmt.Sprintf("gap:%d", ci), tr.clientNode(), 10*time.Millisecond).Killed {
				return
			}
			if !c.onResp {
				// ---- tampered request: take the request of the most recent attempt
				gd := capturedReqHop
				if gd == nil || capturedReq == nil {
					continue
				}
				g := struct{ Payload []byte }{tr.ntp(gd)}
				if g.Payload == nil {
					continue
				}
				var mut, trailing []byte
				must := true
				desc := ""
				switch c.kind {
				case "bit":
					if c.bit >= len(g.Payload)*8 {
						continue
					}
					mut = flip(g.Payload, c.bit)
					must, _ = c10MustReject(g.Payload, c.bit/8)
					desc = fmt.Sprintf("request bit %d (byte %d)", c.bit, c.bit/8)
				case "len":
					off := lenField(g.Payload, c.pos)
					if off < 0 {
						continue
					}
					mut = append([]byte(nil), g.Payload...)
					old := int(mut[off])<<8 | int(mut[off+1])
					nv := c.val
					if c.val == -4 || c.val == 8 {
						nv = old + c.val
						if c.val == 8 {
							nv = old + 4
						}
					}
					if nv == old {
						continue
					}
					mut[off], mut[off+1] = byte(nv>>8), byte(nv)
					m1, _ := c10MustReject(g.Payload, off)
					m2, _ := c10MustReject(g.Payload, off+1)
					must = m1 && m2
					desc = fmt.Sprintf("request length word at %d: %d -> %d", off, old, nv)
				case "genuine":
					mut = append([]byte(nil), g.Payload...)
					desc = "request replayed unmodified"
				case "nonce-lengthened":
					mut = c10LengthenNonce(g.Payload, c.val)
					if mut == nil {
						continue
					}
					desc = fmt.Sprintf("request whose authenticator nonce is lengthened by %d bytes behind the genuine sixteen", c.val)
					r.Probe("nonce-lengthened")
				case "inserted-before-authenticator":
					mut = c10InsertBeforeAuth(g.Payload, c.val, 0x0304)
					if mut == nil {
						continue
					}
					desc = fmt.Sprintf("request with %d placeholder field(s) inserted before the authenticator, its length word raised accordingly", c.val)
					r.Probe("fields-inserted-before-authenticator")
				case "header-changed-genuine-behind":
					// the request with a changed NTP header, and the genuine request right behind it
					// (over SCION: behind the end of the UDP datagram): what is answered must be
					// what was authenticated
					must, _ = c10MustReject(g.Payload, c.bit/8)
					if !must {
						continue
					}
					mut = flip(g.Payload, c.bit)
					trailing = append([]byte(nil), g.Payload...)
					desc = fmt.Sprintf("request header bit %d changed, the genuine request appended behind it", c.bit)
					r.Probe("genuine-copy-behind-forged-request")
				default:
					continue
				}
				wrapped := tr.rewrap(gd, mut)
				if trailing != nil {
					wrapped = tr.rewrapTrailing(gd, mut, trailing)
				}
				if wrapped == nil {
					continue
				}
				d := net.NewDatagram(gd.Src, gd.Dst, wrapped, "tampered request")
				net.Inject(d, 50*time.Microsecond)
				r.Fault("request:" + c.kind)
				if r.Sleep(fmt.Sprintf("settle:%d", ci), tr.clientNode(), 3*time.Millisecond).Killed {
					return
				}
				n := replies[d.ID]
				switch {
				case c.kind == "genuine":
					if n != 1 {
						r.Fail("C10", "request/genuine-rejected", "%s: %d replies", desc, n)
						return
					}
					r.Probe("genuine-accepted")
				case must && n != 0:
					r.Fail("C10", "request/tampered-accepted", "%s: the listener answered (%d replies)", desc, n)
					return
				case must:
					rejected++
					r.Probe("request-tamper-rejected")
				default:
					either++
					r.Probe("unauthenticated-position")
				}
				checked++
				if len(samples) < 6 && ci%23 == 1 {
					samples = append(samples, fmt.Sprintf("%s -> %d replies", desc, n))
				}
				continue
			}
			// ---- tampered response, delivered ahead of the genuine one
			desc := ""
			must := true
			skip := false
			curKind = c.kind
			twice = mode == "sampled" && tp.Bool(1, 4, "twice")
			injected2 = nil
			tamper = func(g []byte) ([]byte, string, bool) {
				switch c.kind {
				case "bit":
					if c.bit >= len(g)*8 {
						skip = true
						return nil, "", false
					}
					must, _ = c10MustReject(g, c.bit/8)
					desc = fmt.Sprintf("response bit %d (byte %d)", c.bit, c.bit/8)
					return flip(g, c.bit), desc, true
				case "len":
					off := lenField(g, c.pos)
					if off < 0 {
						skip = true
						return nil, "", false
					}
					mut := append([]byte(nil), g...)
					old := int(mut[off])<<8 | int(mut[off+1])
					nv := c.val
					if c.val == -4 {
						nv = old - 4
					} else if c.val == 8 {
						nv = old + 4
					}
					if nv == old {
						skip = true
						return nil, "", false
					}
					mut[off], mut[off+1] = byte(nv>>8), byte(nv)
					m1, _ := c10MustReject(g, off)
					m2, _ := c10MustReject(g, off+1)
					must = m1 && m2
					desc = fmt.Sprintf("response length word at %d: %d -> %d", off, old, nv)
					return mut, desc, true
				case "zero-tail-cut":
					// a correctly sealed response whose ciphertext happens to end in zero bytes, with
					// those bytes cut off the datagram: the authenticator field then runs past the end
					// of the packet, which is not the packet that was sealed
					key := tr.fetcher().VerifData().S2cKey
					pt, ok := ntsOpenRaw(g, key)
					if !ok {
						skip = true
						return nil, "", false
					}
					for no := 0; no < 70000; no++ {
						cand := ntsResealNonce(g, uidOf(g), pt, key, no)
						z := 0
						for z < c.val && cand[len(cand)-1-z] == 0 {
							z++
						}
						if z == c.val {
							desc = fmt.Sprintf("a correctly sealed response whose last %d ciphertext byte(s) are zero, with them cut off", c.val)
							r.Probe("zero-tail-cut")
							return cand[:len(cand)-c.val], desc, true
						}
						if c.val > 1 && no > 3000 {
							break // two zero bytes: give up after a while
						}
					}
					skip = true
					return nil, "", false
				case "nonce-lengthened":
					mut := c10LengthenNonce(g, c.val)
					if mut == nil {
						skip = true
						return nil, "", false
					}
					r.Probe("nonce-lengthened")
					return mut, fmt.Sprintf("the genuine response with its authenticator nonce lengthened by %d bytes behind the genuine sixteen", c.val), true
				case "inserted-before-authenticator":
					mut := c10InsertBeforeAuth(g, 1, 0x0104)
					if mut == nil {
						skip = true
						return nil, "", false
					}
					r.Probe("fields-inserted-before-authenticator")
					return mut, "the genuine response with a second unique-identifier field inserted before the authenticator, its length word raised accordingly", true
				case "stripped":
					desc = "the genuine response without its NTS fields (bare 48-byte NTP header)"
					return append([]byte(nil), g[:48]...), desc, true
				case "reflect":
					desc = "the client's own request reflected as a response"
					return append([]byte(nil), tr.ntp(capturedReq)...), desc, true
				case "replay":
					if prevResp == nil {
						skip = true
						return nil, "", false
					}
					desc = "a genuine response to an earlier request replayed"
					return append([]byte(nil), prevResp...), desc, true
				case "replay+uid":
					if prevResp == nil {
						skip = true
						return nil, "", false
					}
					desc = "an earlier genuine response replayed with the outstanding request's unique identifier appended after the authenticator"
					uid := uidOf(tr.ntp(capturedReq))
					mut := append([]byte(nil), prevResp...)
					mut = append(mut, 0x01, 0x04, byte((4+len(uid))>>8), byte(4+len(uid)))
					mut = append(mut, uid...)
					return mut, desc, true
				case "resealed-uid":
					// a response of the same session to a different request: correctly sealed under
					// the server-to-client key, but with another unique identifier
					uid := append([]byte(nil), uidOf(g)...)
					pt, ok := ntsOpenRaw(g, tr.fetcher().VerifData().S2cKey)
					if !ok || len(uid) < 32 {
						skip = true
						return nil, "", false
					}
					switch c.val {
					case 0:
						uid = append(uid, 0xde, 0xad, 0xbe, 0xef)
						desc = "a response sealed under the right key whose identifier is the request's followed by four more bytes"
					case 1:
						uid = append(uid, make([]byte, 32)...)
						desc = "a response sealed under the right key whose identifier is the request's followed by 32 zero bytes"
					case 2:
						uid = uid[:len(uid)-4]
						desc = "a response sealed under the right key whose identifier is the request's without its last four bytes"
					case 3:
						uid[len(uid)-1] ^= 0x01
						desc = "a response sealed under the right key whose identifier differs in its last bit"
					default:
						uid[0] ^= 0x80
						desc = "a response sealed under the right key whose identifier differs in its first bit"
					}
					mut := ntsReseal(g, uid, pt, tr.fetcher().VerifData().S2cKey)
					if _, ok := ntsVerify(mut, tr.fetcher().VerifData().S2cKey); !ok {
						r.Fail("harness", "c10/reseal", "the re-sealed response does not verify under the session key")
						return nil, "", false
					}
					r.Probe("resealed-other-identifier")
					return mut, desc, true
				case "genuine+trailing-cookie":
					desc = "the genuine response with an unauthenticated cookie field appended after the authenticator"
					trailing = make([]byte, 124)
					for i := range trailing {
						trailing[i] = byte(0xA0 + i%7)
					}
					mut := append([]byte(nil), g...)
					mut = append(mut, 0x02, 0x04, 0x00, 128)
					mut = append(mut, trailing...)
					trailingOK = true
					return mut, desc, true
				}
				skip = true
				return nil, "", false
			}
			injected, genuineResp, lastClosedRecv = nil, nil, nil
			trailing, trailingOK = nil, false
			auth0, _ := tr.authenticatedCount()
			err := tr.measure(300 * time.Millisecond)
			tamper = nil
			auth1, _ := tr.authenticatedCount()
			authN := auth1 - auth0
			if genuineResp != nil {
				prevResp = append([]byte(nil), tr.ntp(genuineResp)...)
			}
			if skip || injected == nil {
				continue
			}
			accepted := err == nil && lastClosedRecv != nil && (lastClosedRecv.ID == injected.ID || (injected2 != nil && lastClosedRecv.ID == injected2.ID))
			// whatever the NTP layer does afterwards: nothing unauthenticated may end up in the pool
			pool := tr.fetcher().VerifData().Cookie
			if len(pool) > 8 {
				r.Fail("C10", "response/pool-over-eight", "%s: the client's pool holds %d cookies", desc, len(pool))
				return
			}
			for _, ck := range pool {
				if trailing != nil && bytes.Equal(ck, trailing) {
					r.Fail("C10", "response/unauthenticated-cookie-stored", "%s: the cookie that followed the authenticator was stored", desc)
					return
				}
				if _, _, oerr := openCookieWith(tr.provider(), ck); oerr != nil {
					r.Fail("C10", "response/foreign-cookie-stored", "%s: the pool holds a cookie the server cannot open: %v", desc, oerr)
					return
				}
			}
			if trailingOK {
				// the packet is genuine up to and including its authenticator: it may be accepted
				checked++
				r.Probe("trailing-data-ignored")
				continue
			}
			if must && authN > 1 {
				r.Fail("C10", "response/tampered-authenticated", "%s: the client authenticated %v datagrams in this exchange (only the genuine response may pass)", desc, authN)
				return
			}
			switch {
			case must && accepted:
				r.Fail("C10", "response/tampered-accepted", "%s: the client reported an offset from the tampered datagram", desc)
				return
			case must:
				rejected++
				r.Probe("response-tamper-rejected")
				if err == nil {
					r.Probe("genuine-accepted-after-tampered")
				}
			default:
				either++
				r.Probe("unauthenticated-position")
			}
			checked++
			if len(samples) < 6 && ci%23 == 1 {
				samples = append(samples, fmt.Sprintf("%s -> accepted=%v err=%v", desc, accepted, err != nil))
			}
		}
	})
	reason := r.Loop(5_000_000, 0)
	r.SetVT()
	r.Drain()
	if reason != "" && r.Violation() == nil {
		r.Fail("harness", "c10/"+reason, "scheduler stopped: %s pending=%v", reason, r.IdlePending)
	}
	r.Count("cases", int64(checked))
	return map[string]any{"mode": mode, "cases": checked, "rejected": rejected, "statement_silent": either, "examples": samples}
}

func init() {
	simcore.Registry["C10"] = &simcore.Spec{
		World:      c10World,
		NonTrivial: func(r *simcore.Run) bool { return r.Counts["cases"] >= 2 },
	}
}

// c10InsertBeforeAuth returns p with n extension fields of the given type (36 bytes each)
// inserted in front of the authenticator field and the authenticator's length word raised
// by the inserted size; nil if p has no authenticator.
// c10LengthenNonce returns p with k (a multiple of four) random bytes inserted behind the
// sixteen nonce bytes of its authenticator field, nonce length and field length raised by k.
func c10LengthenNonce(p []byte, k int) []byte {
	for _, f := range ntsWalk(p) {
		if f.typ != 0x0404 || len(f.body) < 4+16 {
			continue
		}
		nl := int(f.body[0])<<8 | int(f.body[1])
		if nl != 16 {
			return nil
		}
		at := f.off + 4 + 4 + 16
		extra := make([]byte, k)
		rand.Read(extra)
		out := append([]byte(nil), p[:at]...)
		out = append(out, extra...)
		out = append(out, p[at:]...)
		l := int(out[f.off+2])<<8 | int(out[f.off+3])
		l += k
		out[f.off+2], out[f.off+3] = byte(l>>8), byte(l)
		nl += k
		out[f.off+4], out[f.off+5] = byte(nl>>8), byte(nl)
		return out
	}
	return nil
}

func c10InsertBeforeAuth(p []byte, n int, typ uint16) []byte {
	for _, f := range ntsWalk(p) {
		if f.typ != 0x0404 {
			continue
		}
		var ins []byte
		for i := 0; i < n; i++ {
			fld := make([]byte, 36)
			rand.Read(fld[4:])
			fld[0], fld[1], fld[2], fld[3] = byte(typ>>8), byte(typ), 0, 36
			ins = append(ins, fld...)
		}
		out := append([]byte(nil), p[:f.off]...)
		out = append(out, ins...)
		out = append(out, p[f.off:]...)
		at := f.off + len(ins)
		l := int(out[at+2])<<8 | int(out[at+3])
		l += len(ins)
		out[at+2], out[at+3] = byte(l>>8), byte(l)
		return out
	}
	return nil
}
