module verif.local/sim

go 1.24.2

require golang.org/x/sys v0.31.0
