package simcore

import "runtime"

func runtimeStackAll(buf []byte) int { return runtime.Stack(buf, true) }
