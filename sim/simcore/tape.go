// Package simcore holds the choice tape, the deterministic scheduler and the
// per-run bookkeeping (event log hash, statistics, violations) shared by all
// simulated worlds.
package simcore

import (
	"fmt"
	"math/bits"
)

// pcg is a small PCG-XSL-RR 128/64 style generator; fully determined by its seed.
type pcg struct{ hi, lo uint64 }

func newPCG(seed uint64) *pcg {
	p := &pcg{hi: seed ^ 0x9e3779b97f4a7c15, lo: seed*0xda942042e4dd58b5 + 0x14057b7ef767814f}
	for i := 0; i < 4; i++ {
		p.next()
	}
	return p
}

func (p *pcg) next() uint64 {
	const mulHi, mulLo = 2549297995355413924, 4865540595714422341
	const incHi, incLo = 6364136223846793005, 1442695040888963407
	hi, lo := bits.Mul64(p.lo, mulLo)
	hi += p.hi*mulLo + p.lo*mulHi
	lo, c := bits.Add64(lo, incLo, 0)
	hi, _ = bits.Add64(hi, incHi, c)
	p.hi, p.lo = hi, lo
	return bits.RotateLeft64(hi^lo, -int(hi>>58))
}

// Mix derives a run seed from the base seed, a property id and a run index.
func Mix(seed uint64, prop string, idx uint64) uint64 {
	h := seed*0x9e3779b97f4a7c15 + 0x1234567
	for _, c := range []byte(prop) {
		h = (h ^ uint64(c)) * 0x100000001b3
	}
	h ^= idx * 0xff51afd7ed558ccd
	h ^= h >> 33
	h *= 0xc4ceb9fe1a85ec53
	h ^= h >> 29
	return h
}

// Tape is the single source of nondeterminism of a run. In generate mode it
// draws from a PRNG and records; in replay mode it plays back recorded values
// (reduced modulo the bound, zero when exhausted), so any sequence of integers
// is a valid tape, which is what makes shrinking simple.
type Tape struct {
	rng    *pcg
	replay []uint64
	rec    []uint64
	pos    int
	isRep  bool
	// Count of choices with n>1 (real decisions).
	Decisions int
}

func NewTape(seed uint64) *Tape { return &Tape{rng: newPCG(seed)} }

func ReplayTape(vals []uint64) *Tape { return &Tape{replay: vals, isRep: true} }

// Choose returns a value in [0,n). 0 is by convention the simplest choice.
func (t *Tape) Choose(n uint64, label string) uint64 {
	if n == 0 {
		panic("tape: Choose(0) " + label)
	}
	if n == 1 {
		return 0
	}
	t.Decisions++
	var v uint64
	if t.isRep {
		if t.pos < len(t.replay) {
			v = t.replay[t.pos] % n
		}
		t.pos++
	} else {
		v = t.rng.next() % n
	}
	t.rec = append(t.rec, v)
	return v
}

// Intn is Choose for ints.
func (t *Tape) Intn(n int, label string) int { return int(t.Choose(uint64(n), label)) }

// Bool returns true with probability num/den; false is the simple choice.
func (t *Tape) Bool(num, den uint64, label string) bool {
	if num == 0 {
		return false
	}
	// value 0 must map to false: true iff v >= den-num.
	return t.Choose(den, label) >= den-num
}

// Range returns a value in [lo,hi]; lo is the simple choice.
func (t *Tape) Range(lo, hi int64, label string) int64 {
	if hi < lo {
		panic(fmt.Sprintf("tape: Range(%d,%d) %s", lo, hi, label))
	}
	return lo + int64(t.Choose(uint64(hi-lo)+1, label))
}

// Pick returns an index weighted by w (w[0] is the simple choice).
func (t *Tape) Pick(w []uint64, label string) int {
	var sum uint64
	for _, x := range w {
		sum += x
	}
	v := t.Choose(sum, label)
	for i, x := range w {
		if v < x {
			return i
		}
		v -= x
	}
	return len(w) - 1
}

// Recorded returns the values chosen so far.
func (t *Tape) Recorded() []uint64 { return t.rec }
