//go:build go1.25

package simcore

import (
	"encoding/json"
	"fmt"
	"os"
	"runtime/debug"
	"strconv"
	"strings"
	"sync/atomic"
	"testing"
	"testing/cryptotest"
	"testing/synctest"
	"time"
)

// World is the body of one simulated run; it executes on the root goroutine of a
// fresh bubble, sets up nodes and workload, drives r.Loop and evaluates oracles.
// The returned value is a JSON-able description of the run (a sample case).
type World func(t *testing.T, r *Run) any

// Spec describes how a property is explored.
type Spec struct {
	World World
	// NonTrivial decides from the statistics whether a run exercised the property.
	NonTrivial func(r *Run) bool
	// ResetGlobals is called before every run (process-global state of the code under test).
	ResetGlobals func()
}

var Registry = map[string]*Spec{}

// Result of one run, as written to the worker's output.
type Result struct {
	Ev         string           `json:"ev"`
	Idx        uint64           `json:"idx"`
	Hash       string           `json:"hash,omitempty"`
	Steps      uint64           `json:"steps,omitempty"`
	VTns       int64            `json:"vt_ns,omitempty"`
	NonTrivial bool             `json:"nt,omitempty"`
	Viol       *Violation       `json:"viol,omitempty"`
	Known      []Violation      `json:"known,omitempty"`
	Tape       []uint64         `json:"tape,omitempty"`
	Sample     any              `json:"sample,omitempty"`
	Faults     map[string]int64 `json:"faults,omitempty"`
	Probes     map[string]int64 `json:"probes,omitempty"`
	Counts     map[string]int64 `json:"counts,omitempty"`
	Decisions  int              `json:"decisions,omitempty"`
	Note       string           `json:"note,omitempty"`
}

var heartbeat atomic.Uint64

type rethrow struct {
	p     any
	stack string
}

// SiteFromStack returns the innermost frame inside the repository.
func SiteFromStack(stack string) string {
	lines := strings.Split(stack, "\n")
	for i := 0; i+1 < len(lines); i++ {
		l := lines[i]
		if strings.HasPrefix(l, "example.com/scion-time") {
			fn := l
			if j := strings.LastIndexByte(fn, '('); j > 0 {
				fn = fn[:j]
			}
			return strings.TrimPrefix(fn, "example.com/scion-time/")
		}
	}
	return "unknown"
}

// PanicClass reduces a panic value to a stable class string.
func PanicClass(p any) string {
	s := fmt.Sprint(p)
	// strip numbers so that index values do not split signatures
	var b strings.Builder
	last := byte(0)
	for i := 0; i < len(s) && b.Len() < 60; i++ {
		c := s[i]
		if c >= '0' && c <= '9' {
			if last != '#' {
				b.WriteByte('#')
				last = '#'
			}
			continue
		}
		b.WriteByte(c)
		last = c
	}
	return b.String()
}

// RunOne executes one run in a fresh bubble.
func RunOne(t *testing.T, prop string, spec *Spec, seed uint64, idx uint64, tape *Tape, trace bool) (res Result) {
	res = Result{Ev: "done", Idx: idx}
	r := NewRun(prop, seed, tape)
	r.Index = idx
	r.Heartbeat = &heartbeat
	r.Trace = trace
	if trace {
		r.TraceFn = func(s string) { fmt.Fprintln(os.Stderr, "TRACE", s) }
	}
	if spec.ResetGlobals != nil {
		spec.ResetGlobals()
	}
	ResetTags()
	var inner any
	var innerStack string
	func() {
		defer func() {
			if p := recover(); p != nil {
				st := string(debug.Stack())
				if rt, ok := p.(rethrow); ok {
					p, st = rt.p, rt.stack
				}
				msg := fmt.Sprint(p)
				if strings.Contains(msg, "deadlock: main bubble goroutine has exited") {
					// goroutines left behind at the end of the bubble
					if r.Violation() == nil {
						res.Note = "leak:" + msg
					}
					return
				}
				if r.Violation() == nil {
					r.viol = &Violation{Oracle: "panic", Site: SiteFromStack(st) + ":" + PanicClass(p), Msg: msg + "\n" + st}
				}
			}
		}()
		t.Run(fmt.Sprintf("run%d", idx), func(t *testing.T) {
			defer func() {
				if p := recover(); p != nil {
					inner = p
					innerStack = string(debug.Stack())
				}
			}()
			// crypto/rand (NTS identifiers, nonces, keys, TLS) is a function of the run seed
			cryptotest.SetGlobalRandom(t, Mix(seed, prop, idx))
			synctest.Test(t, func(t *testing.T) {
				r.Begin()
				res.Sample = spec.World(t, r)
			})
		})
		if inner != nil {
			panic(rethrow{inner, innerStack})
		}
	}()
	res.Hash = strconv.FormatUint(r.Hash(), 16)
	res.Steps = r.Step
	res.VTns = int64(r.vt)
	res.Viol = r.Violation()
	res.Decisions = tape.Decisions
	if spec.NonTrivial != nil {
		res.NonTrivial = spec.NonTrivial(r)
	}
	res.Faults, res.Probes, res.Counts = r.Faults, r.Probes, r.Counts
	res.Known = r.Knowns()
	if res.Viol != nil || len(res.Known) > 0 {
		res.Tape = append([]uint64(nil), tape.Recorded()...)
	}
	return res
}

// SetVT records the virtual time covered (call before leaving the bubble).
func (r *Run) SetVT() { r.vt = time.Since(r.start) }

// WorkerMain is the body of the single test function of the simulator binary.
// Environment:
//
//	SIM_PROP    property id (key of Registry)
//	SIM_SEED    base seed (VERIF_SEED)
//	SIM_FROM, SIM_TO   run indices [from,to)
//	SIM_REPLAY  path of a replay file {"prop","seed","idx","tape":[...]}: run exactly that
//	SIM_TRACE   1 = print the event log to stderr
//	SIM_OUT     output file for JSON lines (default stdout)
//	SIM_BUDGET_S  stop starting new runs after this many wall seconds
func WorkerMain(t *testing.T) {
	prop := os.Getenv("SIM_PROP")
	if prop == "" {
		t.Skip("SIM_PROP not set")
	}
	spec := Registry[prop]
	if spec == nil {
		fmt.Fprintf(os.Stderr, "unknown property/world %q\n", prop)
		os.Exit(2)
	}
	out := os.Stdout
	if p := os.Getenv("SIM_OUT"); p != "" {
		f, err := os.Create(p)
		if err != nil {
			fmt.Fprintln(os.Stderr, err)
			os.Exit(2)
		}
		defer f.Close()
		out = f
	}
	enc := json.NewEncoder(out)
	trace := os.Getenv("SIM_TRACE") == "1"
	seed, _ := strconv.ParseUint(os.Getenv("SIM_SEED"), 10, 64)

	// watchdog: a step that does not complete in 20 s of wall time is a stall
	stallS := 20
	if v, err := strconv.Atoi(os.Getenv("SIM_STALL_S")); err == nil && v > 0 {
		stallS = v
	}
	var curIdx atomic.Uint64
	go func() {
		last := heartbeat.Load()
		lastChange := time.Now()
		for {
			time.Sleep(500 * time.Millisecond)
			h := heartbeat.Load()
			if h != last {
				last, lastChange = h, time.Now()
				continue
			}
			if time.Since(lastChange) > time.Duration(stallS)*time.Second {
				fmt.Fprintf(os.Stderr, "WATCHDOG stall idx=%d\n", curIdx.Load())
				buf := make([]byte, 1<<20)
				n := runtimeStackAll(buf)
				os.Stderr.Write(buf[:n])
				enc.Encode(Result{Ev: "stall", Idx: curIdx.Load()})
				os.Exit(3)
			}
		}
	}()

	if rp := os.Getenv("SIM_REPLAY"); rp != "" {
		data, err := os.ReadFile(rp)
		if err != nil {
			fmt.Fprintln(os.Stderr, err)
			os.Exit(2)
		}
		var rf struct {
			Prop   string   `json:"prop"`
			Seed   uint64   `json:"seed"`
			Idx    uint64   `json:"idx"`
			Tape   []uint64 `json:"tape"`
			BySeed bool     `json:"by_seed"`
		}
		if err := json.Unmarshal(data, &rf); err != nil {
			fmt.Fprintln(os.Stderr, err)
			os.Exit(2)
		}
		curIdx.Store(rf.Idx)
		enc.Encode(Result{Ev: "start", Idx: rf.Idx})
		heartbeat.Add(1)
		tape := ReplayTape(rf.Tape)
		if rf.BySeed {
			tape = NewTape(Mix(rf.Seed, prop, rf.Idx))
		}
		res := RunOne(t, prop, spec, rf.Seed, rf.Idx, tape, trace)
		res.Tape = append([]uint64(nil), res.Tape...)
		enc.Encode(res)
		return
	}

	from, _ := strconv.ParseUint(os.Getenv("SIM_FROM"), 10, 64)
	to, _ := strconv.ParseUint(os.Getenv("SIM_TO"), 10, 64)
	budget, _ := strconv.ParseFloat(os.Getenv("SIM_BUDGET_S"), 64)
	startWall := time.Now()
	for idx := from; idx < to; idx++ {
		if budget > 0 && time.Since(startWall).Seconds() > budget {
			break
		}
		curIdx.Store(idx)
		enc.Encode(Result{Ev: "start", Idx: idx})
		heartbeat.Add(1)
		res := RunOne(t, prop, spec, seed, idx, NewTape(Mix(seed, prop, idx)), trace)
		if idx-from >= 2 {
			res.Sample = nil
		}
		enc.Encode(res)
	}
	enc.Encode(Result{Ev: "end"})
}
