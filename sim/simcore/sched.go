//go:build go1.25

package simcore

import (
	"fmt"
	"hash/fnv"
	"runtime"
	"sort"
	"strconv"
	"strings"
	"sync"
	"sync/atomic"
	"testing/synctest"
	"time"
)

// Node is a simulated host: it owns a clock and a name. All goroutines that run
// in one scheduler step belong to the node of the operation released in it.
type Node struct {
	Name  string
	Clock NodeClock
	Dead  bool // set by Kill: every operation of this node ends with Goexit
}

// NodeClock is what the scheduler needs from a node clock.
type NodeClock interface {
	Now() time.Time
}

// Op is a pending simulated operation: a goroutine parked inside a simulator
// call, waiting for the scheduler to release it.
type Op struct {
	ID       string      // deterministic identity (object + per-object counter)
	Node     *Node       // may be nil (harness-level operation)
	Ready    func() bool // evaluated by the scheduler at quiescence; nil = never ready by itself
	Deadline time.Time   // zero = none; at/after this virtual instant the op is ready (TimedOut)
	NoDelay  bool        // do not insert a processing delay before release
	ch       chan OpResult
}

// OpResult tells the released goroutine why it was released.
type OpResult struct {
	TimedOut bool
	Killed   bool // node is dead or world is over: caller must unwind
}

type event struct {
	at  time.Time
	seq uint64
	fn  func()
}

// Run is one simulated execution.
type Run struct {
	Tape  *Tape
	Seed  uint64
	Prop  string
	Index uint64 // run index within the batch

	mu      sync.Mutex
	pending map[string]*Op
	events  []event // kept sorted by (at, seq)
	evseq   uint64
	wake    chan struct{}

	cur       *Node
	TimerNode *Node // node whose clock answers while no operation is running
	Step      uint64

	over atomic.Bool

	// Event log.
	hash    uint64
	Trace   bool
	TraceFn func(string)
	events_ uint64

	// Processing delay knob: max nanoseconds inserted before releasing an op
	// (tape chosen, 0 = off).
	ProcDelayMaxNs int64

	// Statistics.
	Faults map[string]int64 // fault kind -> times actually fired
	Probes map[string]int64 // rare-branch probes
	Counts map[string]int64 // misc counters (exchanges, operations...)

	viol   *Violation
	knowns []Violation // occurrences classified as recorded findings: the run goes on

	Heartbeat *atomic.Uint64 // watchdog

	start time.Time
	vt    time.Duration

	// Statement-level yields (C06/C07/C12): on/off and the fraction of sites enabled per run.
	YieldsOn           bool
	IdlePending        []string                 // operations parked when the scheduler found nothing to do
	Injected           map[string]time.Duration // virtual delay injected per goroutine tag (slow goroutine fault)
	SelectsOn          bool                     // receive-only selects rewritten by simbuild are scheduler decisions
	YieldNum, YieldDen uint64
	// StallPerMille > 0: that share of the yields taken is a stall of one of the durations
	// in StallFor (virtual time), not just a hand-over of the processor.
	StallPerMille uint64
	StallFor      []time.Duration
	yieldSites         map[string]bool
}

// Violation is a property violation found by an oracle.
type Violation struct {
	Oracle string `json:"oracle"`
	Site   string `json:"site"`
	Msg    string `json:"msg"`
}

func (v *Violation) Signature() string { return v.Oracle + "/" + v.Site }

func NewRun(prop string, seed uint64, tape *Tape) *Run {
	r := &Run{
		Tape:     tape,
		Seed:     seed,
		Prop:     prop,
		pending:  map[string]*Op{},
		wake:     make(chan struct{}, 1),
		Faults:   map[string]int64{},
		Probes:   map[string]int64{},
		Counts:   map[string]int64{},
		Injected: map[string]time.Duration{},
		hash:     14695981039346656037,
	}
	return r
}

// Begin must be called inside the bubble before anything else.
func (r *Run) Begin() {
	r.wake = make(chan struct{}, 1) // channel must belong to the bubble
	r.start = time.Now()
}

func (r *Run) Start() time.Time { return r.start }

// Elapsed is the virtual time since Begin.
func (r *Run) Elapsed() time.Duration { return time.Since(r.start) }

// Log appends a line to the event log (hashed; kept only when tracing).
// It never draws from the tape or reads a real clock.
func (r *Run) Log(format string, args ...any) {
	var s string
	if len(args) == 0 {
		s = format
	} else {
		s = fmt.Sprintf(format, args...)
	}
	r.mu.Lock()
	h := fnv.New64a()
	var b [8]byte
	for i := 0; i < 8; i++ {
		b[i] = byte(r.hash >> (8 * i))
	}
	h.Write(b[:])
	h.Write([]byte(s))
	r.hash = h.Sum64()
	r.events_++
	tr := r.Trace
	fn := r.TraceFn
	r.mu.Unlock()
	if tr && fn != nil {
		fn(s)
	}
}

func (r *Run) Hash() uint64   { r.mu.Lock(); defer r.mu.Unlock(); return r.hash }
func (r *Run) Events() uint64 { r.mu.Lock(); defer r.mu.Unlock(); return r.events_ }

func (r *Run) Fault(kind string) { r.mu.Lock(); r.Faults[kind]++; r.mu.Unlock() }
func (r *Run) FaultN(kind string, n int64) {
	if n > 0 {
		r.mu.Lock()
		r.Faults[kind] += n
		r.mu.Unlock()
	}
}
func (r *Run) Probe(name string) { r.mu.Lock(); r.Probes[name]++; r.mu.Unlock() }
func (r *Run) Count(name string, n int64) {
	r.mu.Lock()
	r.Counts[name] += n
	r.mu.Unlock()
}

// Fail records a violation (the first one wins) and ends the run.
func (r *Run) Fail(oracle, site, format string, args ...any) {
	msg := fmt.Sprintf(format, args...)
	r.mu.Lock()
	if r.viol == nil {
		r.viol = &Violation{Oracle: oracle, Site: site, Msg: msg}
	}
	r.mu.Unlock()
	r.Log("VIOLATION %s/%s", oracle, site) // the message may hold addresses and goroutine ids: not hashed
	if r.Trace && r.TraceFn != nil {
		r.TraceFn("  " + msg)
	}
	r.over.Store(true)
	r.kick()
}

func (r *Run) Violation() *Violation { r.mu.Lock(); defer r.mu.Unlock(); return r.viol }

// Finish marks the world as over: the scheduler loop ends and every parked or
// future operation is released as Killed.
func (r *Run) Finish()    { r.over.Store(true); r.kick() }
func (r *Run) Over() bool { return r.over.Load() }

func (r *Run) kick() {
	select {
	case r.wake <- struct{}{}:
	default:
	}
}

// Current returns the node of the operation released last (or TimerNode).
func (r *Run) Current() *Node {
	r.mu.Lock()
	defer r.mu.Unlock()
	if r.cur != nil {
		return r.cur
	}
	return r.TimerNode
}

// Park registers op and blocks until the scheduler releases it.
func (r *Run) Park(op *Op) OpResult {
	if r.over.Load() {
		return OpResult{Killed: true}
	}
	op.ch = make(chan OpResult, 1)
	r.mu.Lock()
	if _, dup := r.pending[op.ID]; dup {
		r.mu.Unlock()
		panic("simcore: duplicate pending operation id " + op.ID)
	}
	r.pending[op.ID] = op
	r.mu.Unlock()
	r.kick()
	return <-op.ch
}

// ParkOrExit is Park for code that cannot return an error: a killed operation
// ends its goroutine (deferred calls run).
func (r *Run) ParkOrExit(op *Op) OpResult {
	res := r.Park(op)
	if res.Killed {
		runtime.Goexit()
	}
	return res
}

// Sleep parks the caller for d of virtual time.
func (r *Run) Sleep(id string, node *Node, d time.Duration) OpResult {
	return r.Park(&Op{ID: id, Node: node, Deadline: time.Now().Add(d), NoDelay: true})
}

// At schedules fn to run inside the scheduler (no goroutine running) at virtual
// instant at. Used for datagram deliveries and scripted clock steps.
func (r *Run) At(at time.Time, fn func()) {
	r.mu.Lock()
	r.evseq++
	ev := event{at: at, seq: r.evseq, fn: fn}
	i := sort.Search(len(r.events), func(i int) bool {
		e := r.events[i]
		return e.at.After(at) || (e.at.Equal(at) && e.seq > ev.seq)
	})
	r.events = append(r.events, event{})
	copy(r.events[i+1:], r.events[i:])
	r.events[i] = ev
	r.mu.Unlock()
	r.kick()
}

// After is At relative to now.
func (r *Run) After(d time.Duration, fn func()) { r.At(time.Now().Add(d), fn) }

// Loop is the scheduler; it runs on the bubble's root goroutine until the world
// is over, maxSteps is exceeded or the virtual-time horizon is reached.
// It returns a non-empty reason when it stopped for a cause other than Finish.
func (r *Run) Loop(maxSteps uint64, horizon time.Duration) string {
	reason := ""
	idleRounds := 0
	for {
		synctest.Wait()
		if r.Heartbeat != nil {
			r.Heartbeat.Add(1)
		}
		if r.over.Load() {
			break
		}
		now := time.Now()
		// 1. run the next due internal event (one per iteration: an event may wake
		// goroutines, which must come to rest before anything else is decided).
		r.mu.Lock()
		if len(r.events) > 0 && !r.events[0].at.After(now) {
			ev := r.events[0]
			r.events = r.events[1:]
			r.cur = nil
			r.mu.Unlock()
			ev.fn()
			continue
		}
		r.mu.Unlock()
		// 2. enabled operations.
		r.mu.Lock()
		ready := make([]*Op, 0, 8)
		var next time.Time
		for _, op := range r.pending {
			if op.Node != nil && op.Node.Dead {
				ready = append(ready, op)
				continue
			}
			if !op.Deadline.IsZero() && !op.Deadline.After(now) {
				ready = append(ready, op)
				continue
			}
			if op.Ready != nil && op.Ready() {
				ready = append(ready, op)
				continue
			}
			if !op.Deadline.IsZero() && (next.IsZero() || op.Deadline.Before(next)) {
				next = op.Deadline
			}
		}
		if len(r.events) > 0 && (next.IsZero() || r.events[0].at.Before(next)) {
			next = r.events[0].at
		}
		npending := len(r.pending)
		r.mu.Unlock()
		if len(ready) > 0 {
			idleRounds = 0
			sort.Slice(ready, func(i, j int) bool { return ready[i].ID < ready[j].ID })
			i := 0
			if len(ready) > 1 {
				i = r.Tape.Intn(len(ready), "sched")
			}
			op := ready[i]
			if r.ProcDelayMaxNs > 0 && !op.NoDelay && !(op.Node != nil && op.Node.Dead) {
				// processing delay: most of the time small, sometimes zero, rarely large
				var d int64
				switch r.Tape.Pick([]uint64{2, 12, 1}, "pdelay") {
				case 0:
					d = 0
				case 1:
					d = 1 + r.Tape.Range(0, r.ProcDelayMaxNs/50, "pdelay.s")
				default:
					d = r.Tape.Range(0, r.ProcDelayMaxNs, "pdelay.l")
				}
				if d > 0 {
					time.Sleep(time.Duration(d))
					synctest.Wait()
					if r.over.Load() {
						break
					}
				}
			}
			r.mu.Lock()
			if r.pending[op.ID] != op {
				r.mu.Unlock()
				continue
			}
			delete(r.pending, op.ID)
			r.cur = op.Node
			r.Step++
			step := r.Step
			r.mu.Unlock()
			res := OpResult{}
			if op.Node != nil && op.Node.Dead {
				res.Killed = true
			} else if !op.Deadline.IsZero() && !op.Deadline.After(time.Now()) && !(op.Ready != nil && op.Ready()) {
				res.TimedOut = true
			}
			r.Log("step %d t=%d rel %s to=%v k=%v", step, time.Since(r.start).Nanoseconds(), op.ID, res.TimedOut, res.Killed)
			op.ch <- res
			if step >= maxSteps {
				reason = "max-steps"
				break
			}
			continue
		}
		// 3. nothing enabled: advance virtual time.
		if horizon > 0 && time.Since(r.start) >= horizon {
			reason = "horizon"
			break
		}
		var d time.Duration
		if next.IsZero() {
			// No simulator event is known; raw Go timers of the code under test may
			// still be pending. Sleep a long time; a Park wakes us.
			idleRounds++
			if idleRounds > 3 {
				reason = fmt.Sprintf("idle(pending=%d)", npending)
				r.IdlePending = r.PendingIDs()
				break
			}
			d = 1000 * time.Hour
		} else {
			d = next.Sub(now)
			if d < 0 {
				d = 0
			}
		}
		if horizon > 0 {
			if left := horizon - time.Since(r.start); d > left {
				d = left
			}
		}
		r.mu.Lock()
		r.cur = nil
		r.mu.Unlock()
		tm := time.NewTimer(d)
		select {
		case <-tm.C:
		case <-r.wake:
			tm.Stop()
		}
	}
	r.over.Store(true)
	return reason
}

// Drain releases every parked operation as Killed until the bubble is quiet.
// Goroutines blocked on plain channels of the code under test are not touched.
func (r *Run) Drain() {
	r.over.Store(true)
	for i := 0; i < 100000; i++ {
		synctest.Wait()
		r.mu.Lock()
		if len(r.pending) == 0 {
			r.mu.Unlock()
			return
		}
		ids := make([]string, 0, len(r.pending))
		for id := range r.pending {
			ids = append(ids, id)
		}
		sort.Strings(ids)
		op := r.pending[ids[0]]
		delete(r.pending, ids[0])
		r.cur = op.Node
		r.mu.Unlock()
		// one at a time, so that what the unwinding goroutines do stays ordered
		op.ch <- OpResult{Killed: true}
	}
}

// BubbleGoroutines returns the stack dumps of the goroutines that belong to the
// calling goroutine's bubble (other runs of this process may have left goroutines
// behind in theirs), excluding the caller.
func BubbleGoroutines() []string {
	buf := make([]byte, 1<<20)
	buf = buf[:runtime.Stack(buf, true)]
	gs := strings.Split(string(buf), "\n\n")
	if len(gs) == 0 {
		return nil
	}
	// the first entry is the calling goroutine: "goroutine N [running, synctest bubble B]:"
	hdr := gs[0]
	if i := strings.IndexByte(hdr, '\n'); i > 0 {
		hdr = hdr[:i]
	}
	j := strings.Index(hdr, "synctest bubble ")
	if j < 0 {
		return nil
	}
	bubble := hdr[j:]
	bubble = strings.TrimRight(bubble, "]:")
	var out []string
	for _, g := range gs[1:] {
		h := g
		if i := strings.IndexByte(h, '\n'); i > 0 {
			h = h[:i]
		}
		if strings.HasSuffix(strings.TrimRight(h, "]:"), bubble) {
			out = append(out, g)
		}
	}
	return out
}

// PendingIDs lists parked operations (diagnostics).
func (r *Run) PendingIDs() []string {
	r.mu.Lock()
	defer r.mu.Unlock()
	ids := make([]string, 0, len(r.pending))
	for id := range r.pending {
		ids = append(ids, id)
	}
	sort.Strings(ids)
	return ids
}

// Kill marks a node dead: all its operations, parked or future, end as Killed.
func (r *Run) Kill(n *Node) {
	r.mu.Lock()
	n.Dead = true
	r.mu.Unlock()
	r.kick()
}

// ---- goroutine identity ------------------------------------------------------

// Goid returns the runtime id of the calling goroutine. It is used only to look
// up a tag the harness attached to that goroutine, never as an identity in the
// event log.
func Goid() uint64 {
	var buf [64]byte
	n := runtime.Stack(buf[:], false)
	s := string(buf[:n])
	s = strings.TrimPrefix(s, "goroutine ")
	if i := strings.IndexByte(s, ' '); i > 0 {
		s = s[:i]
	}
	id, _ := strconv.ParseUint(s, 10, 64)
	return id
}

var (
	tagMu sync.Mutex
	tags  = map[uint64]string{}
)

// SetTag attaches a deterministic tag to the calling goroutine.
func SetTag(tag string) {
	id := Goid()
	tagMu.Lock()
	tags[id] = tag
	tagMu.Unlock()
}

// ClearTag removes it.
func ClearTag() {
	id := Goid()
	tagMu.Lock()
	delete(tags, id)
	tagMu.Unlock()
}

// Tag returns the calling goroutine's tag ("" if none).
func Tag() string {
	id := Goid()
	tagMu.Lock()
	t := tags[id]
	tagMu.Unlock()
	return t
}

// ResetTags clears all tags (between runs).
func ResetTags() {
	tagMu.Lock()
	tags = map[uint64]string{}
	tagMu.Unlock()
}

// Active is the run currently executing in this process (one at a time).
var Active atomic.Pointer[Run]

// Yield configuration (used by simsync).
func (r *Run) YieldAt(site string) bool {
	if !r.YieldsOn {
		return false
	}
	r.mu.Lock()
	defer r.mu.Unlock()
	v, ok := r.yieldSites[site]
	if !ok {
		if r.yieldSites == nil {
			r.yieldSites = map[string]bool{}
		}
		v = r.Tape.Bool(r.YieldNum, r.YieldDen, "ysite")
		r.yieldSites[site] = v
	}
	if v {
		r.Faults["preempted-between-statements"]++
	}
	return v
}

// AddInjected accounts a delay the simulator imposed on the goroutine tagged tag.
func (r *Run) AddInjected(tag string, d time.Duration) {
	r.mu.Lock()
	r.Injected[tag] += d
	r.mu.Unlock()
}

func (r *Run) InjectedFor(tag string) time.Duration {
	r.mu.Lock()
	defer r.mu.Unlock()
	return r.Injected[tag]
}

// Known records an occurrence that an oracle classifies as a specific recorded
// finding; unlike Fail it does not end the run. The orchestrator checks the
// signature against known_findings.jsonl: if no open entry matches, it is a violation.
func (r *Run) Known(oracle, site, format string, args ...any) {
	r.mu.Lock()
	for _, k := range r.knowns {
		if k.Oracle == oracle && k.Site == site {
			r.mu.Unlock()
			return
		}
	}
	r.knowns = append(r.knowns, Violation{Oracle: oracle, Site: site, Msg: fmt.Sprintf(format, args...)})
	r.mu.Unlock()
	r.Log("KNOWN %s/%s", oracle, site)
}

func (r *Run) Knowns() []Violation {
	r.mu.Lock()
	defer r.mu.Unlock()
	return append([]Violation(nil), r.knowns...)
}
