// Package simsync provides the simulator-aware Mutex substituted for sync.Mutex
// in the files whose critical sections are explored statement by statement, and
// the Yield call spliced in front of their statements.
package simsync

import (
	"context"
	"reflect"
	"runtime"
	"sync"
	"time"

	"verif.local/sim/simcore"
)

// Mutex has the method set of sync.Mutex. Outside a run, or when the calling
// goroutine carries no tag, it is a plain mutex. Inside a run with yields on,
// Lock parks while another goroutine holds it and the scheduler decides who
// gets it next.
type Mutex struct {
	real sync.Mutex
	g    sync.Mutex // guards held
	held bool
	// Observers (set by worlds): called with the tag of the goroutine.
	seq uint64
}

// OnAcquire, if set, is called after every acquisition with the goroutine tag
// and a global acquisition sequence number (the linearisation order).
var OnAcquire func(tag string)

// OnRelease, if set, is called just before the mutex is released.
var OnRelease func(tag string)

func sim() (*simcore.Run, string) {
	r := simcore.Active.Load()
	if r == nil || !r.YieldsOn {
		return nil, ""
	}
	tag := simcore.Tag()
	if tag == "" {
		return nil, ""
	}
	return r, tag
}

func (m *Mutex) Lock() {
	r, tag := sim()
	if r == nil {
		m.real.Lock()
		m.g.Lock()
		m.held = true
		m.g.Unlock()
		return
	}
	n := 0
	for {
		m.g.Lock()
		if !m.held {
			m.held = true
			m.g.Unlock()
			if OnAcquire != nil {
				OnAcquire(tag)
			}
			return
		}
		m.g.Unlock()
		n++
		res := r.Park(&simcore.Op{ID: "lock:" + tag, NoDelay: true, Ready: func() bool {
			m.g.Lock()
			defer m.g.Unlock()
			return !m.held
		}})
		if res.Killed {
			runtime.Goexit()
		}
	}
}

func (m *Mutex) Unlock() {
	r, tag := sim()
	if r != nil && OnRelease != nil {
		OnRelease(tag)
	}
	m.g.Lock()
	if !m.held {
		m.g.Unlock()
		if a := simcore.Active.Load(); a != nil && a.Over() {
			// a goroutine unwound by the simulator at the end of a run runs its deferred
			// Unlock although it was parked between an explicit Unlock and the next Lock
			return
		}
		panic("simsync: unlock of unlocked mutex")
	}
	m.held = false
	m.g.Unlock()
	if r == nil {
		m.real.Unlock()
	}
}

func (m *Mutex) TryLock() bool {
	r, _ := sim()
	if r == nil && !m.real.TryLock() {
		return false
	}
	m.g.Lock()
	defer m.g.Unlock()
	if m.held {
		if r == nil {
			m.real.Unlock()
		}
		return false
	}
	m.held = true
	return true
}

// RWMutex stands in for sync.RWMutex (a change to the code under test may turn a
// Mutex into one): the simulator decides which waiter proceeds; like the runtime's, it
// admits no new reader while a writer waits.
type RWMutex struct {
	real    sync.RWMutex
	g       sync.Mutex
	readers int
	writer  bool
	wwait   int
}

func (m *RWMutex) wait(r *simcore.Run, tag, what string, ok func() bool) {
	for {
		m.g.Lock()
		if ok() {
			return // with m.g held
		}
		m.g.Unlock()
		res := r.Park(&simcore.Op{ID: what + ":" + tag, NoDelay: true, Ready: func() bool {
			m.g.Lock()
			defer m.g.Unlock()
			return ok()
		}})
		if res.Killed {
			runtime.Goexit()
		}
	}
}

func (m *RWMutex) Lock() {
	r, tag := sim()
	if r == nil {
		m.real.Lock()
		m.g.Lock()
		m.writer = true
		m.g.Unlock()
		return
	}
	m.g.Lock()
	m.wwait++
	m.g.Unlock()
	m.wait(r, tag, "lock", func() bool { return !m.writer && m.readers == 0 })
	m.writer = true
	m.wwait--
	m.g.Unlock()
	if OnAcquire != nil {
		OnAcquire(tag)
	}
}

func (m *RWMutex) Unlock() {
	r, tag := sim()
	if r != nil && OnRelease != nil {
		OnRelease(tag)
	}
	m.g.Lock()
	if !m.writer {
		m.g.Unlock()
		if a := simcore.Active.Load(); a != nil && a.Over() {
			return
		}
		panic("simsync: unlock of unlocked rwmutex")
	}
	m.writer = false
	m.g.Unlock()
	if r == nil {
		m.real.Unlock()
	}
}

func (m *RWMutex) RLock() {
	r, tag := sim()
	if r == nil {
		m.real.RLock()
		m.g.Lock()
		m.readers++
		m.g.Unlock()
		return
	}
	m.wait(r, tag, "rlock", func() bool { return !m.writer && m.wwait == 0 })
	m.readers++
	m.g.Unlock()
}

func (m *RWMutex) RUnlock() {
	r, _ := sim()
	m.g.Lock()
	if m.readers == 0 {
		m.g.Unlock()
		if a := simcore.Active.Load(); a != nil && a.Over() {
			return
		}
		panic("simsync: runlock of unlocked rwmutex")
	}
	m.readers--
	m.g.Unlock()
	if r == nil {
		m.real.RUnlock()
	}
}

// Yield is spliced in front of statements; it is a scheduling point when the
// world enabled yields, the calling goroutine is tagged and this site belongs to
// the subset enabled for the run.
func Yield(site string) {
	r, tag := sim()
	if r == nil {
		return
	}
	if !r.YieldAt(site) {
		return
	}
	if r.StallPerMille > 0 && len(r.StallFor) > 0 && r.Tape.Bool(r.StallPerMille, 1000, "stall?") {
		// the goroutine is not just preempted, it stays off the processor for a while (a
		// descheduled thread, a stopped process): virtual time moves on before it continues
		d := r.StallFor[r.Tape.Intn(len(r.StallFor), "stallfor")]
		r.Fault("goroutine-stalled-between-statements")
		res := r.Park(&simcore.Op{ID: "stall:" + tag, NoDelay: true, Deadline: time.Now().Add(d)})
		if res.Killed {
			runtime.Goexit()
		}
		return
	}
	res := r.Park(&simcore.Op{ID: "yield:" + tag, NoDelay: true, Ready: func() bool { return true }})
	if res.Killed {
		runtime.Goexit()
	}
}

// ---- select -------------------------------------------------------------------------

// Sel is the outcome of a Select: the index of the case taken and the value received.
type Sel struct {
	I  int
	V  reflect.Value
	OK bool
}

// Select stands in for a select statement whose cases are all receive
// operations. Outside the simulator it has the semantics of select. Inside, it
// is first a scheduling point (so that several cases can become ready while the
// goroutine is parked) and then takes the ready case the tape prefers; when
// none is ready it blocks like select does (under the one-operation-at-a-time
// discipline only one case can become ready then).
func Select(site string, chans ...any) Sel {
	cases := make([]reflect.SelectCase, len(chans), len(chans)+1)
	for i, c := range chans {
		cases[i] = reflect.SelectCase{Dir: reflect.SelectRecv, Chan: reflect.ValueOf(c)}
	}
	r, tag := simSel()
	if r != nil {
		// the goroutine may be slow to reach the select: usually not at all, sometimes
		// by a nanosecond, a microsecond or a millisecond of virtual time
		op := &simcore.Op{ID: "select:" + tag, NoDelay: true}
		switch r.Tape.Pick([]uint64{9, 1, 1, 1}, "select.slow") {
		case 0:
			op.Ready = func() bool { return true }
		case 1:
			op.Deadline = time.Now().Add(time.Nanosecond)
			r.AddInjected(tag, time.Nanosecond)
			r.Fault("slow-goroutine")
		case 2:
			op.Deadline = time.Now().Add(time.Microsecond)
			r.AddInjected(tag, time.Microsecond)
			r.Fault("slow-goroutine")
		default:
			op.Deadline = time.Now().Add(time.Millisecond)
			r.AddInjected(tag, time.Millisecond)
			r.Fault("slow-goroutine")
		}
		res := r.Park(op)
		if res.Killed {
			runtime.Goexit()
		}
		first := r.Tape.Intn(len(chans), "select")
		for k := 0; k < len(chans); k++ {
			i := (first + k) % len(chans)
			probe := []reflect.SelectCase{cases[i], {Dir: reflect.SelectDefault}}
			if j, v, ok := reflect.Select(probe); j == 0 {
				if k > 0 || len(chans) > 1 {
					r.Log("select %s %s takes case %d", tag, site, i)
				}
				return Sel{I: i, V: v, OK: ok}
			}
		}
	}
	i, v, ok := reflect.Select(cases)
	return Sel{I: i, V: v, OK: ok}
}

func simSel() (*simcore.Run, string) {
	r := simcore.Active.Load()
	if r == nil || !r.SelectsOn {
		return nil, ""
	}
	tag := simcore.Tag()
	if tag == "" {
		return nil, ""
	}
	return r, tag
}

// SelVal returns the received value with the element type of ch.
func SelVal[T any](s Sel, _ <-chan T) T {
	var zero T
	if !s.V.IsValid() {
		return zero
	}
	v, _ := s.V.Interface().(T)
	return v
}

func SelVal2[T any](s Sel, ch <-chan T) (T, bool) { return SelVal(s, ch), s.OK }

// ---- context deadlines ----------------------------------------------------------------

// simCtx is a context whose deadline is a scheduler event instead of a raw runtime
// timer, so that it is totally ordered with every other simulated event.
type simCtx struct {
	parent   context.Context
	deadline time.Time
	done     chan struct{}
	mu       sync.Mutex
	err      error
}

func (c *simCtx) Deadline() (time.Time, bool) { return c.deadline, true }
func (c *simCtx) Done() <-chan struct{}       { return c.done }
func (c *simCtx) Err() error                  { c.mu.Lock(); defer c.mu.Unlock(); return c.err }
func (c *simCtx) Value(k any) any             { return c.parent.Value(k) }

func (c *simCtx) finish(err error) {
	c.mu.Lock()
	if c.err == nil {
		c.err = err
		close(c.done)
	}
	c.mu.Unlock()
}

// WithTimeout stands in for context.WithTimeout (substituted in core/sync/sync.go,
// used directly by worlds). Outside a run it is context.WithTimeout.
func WithTimeout(parent context.Context, d time.Duration) (context.Context, context.CancelFunc) {
	r := simcore.Active.Load()
	if r == nil {
		return context.WithTimeout(parent, d)
	}
	c := &simCtx{parent: parent, deadline: time.Now().Add(d), done: make(chan struct{})}
	if d <= 0 {
		c.finish(context.DeadlineExceeded)
	} else {
		r.At(c.deadline, func() { c.finish(context.DeadlineExceeded) })
	}
	return c, func() { c.finish(context.Canceled) }
}
