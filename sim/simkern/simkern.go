//go:build go1.25

// Package simkern is the simulated kernel time interface behind the repository's
// system clock driver (driver/clocks/sysclk_linux.go): clock_gettime,
// clock_adjtime (ADJ_SETOFFSET|ADJ_NANO and ADJ_FREQUENCY) and absolute timerfd
// timers on CLOCK_REALTIME, all acting on one simulated node clock. The driver's
// own code - its mutex, epoch counter, the goroutine that ends a slew, its
// arithmetic - runs unchanged on top.
package simkern

import (
	"fmt"
	"sync"
	"time"

	"golang.org/x/sys/unix"

	"verif.local/sim/simclock"
	"verif.local/sim/simcore"
)

// KClock is a node's kernel clock: a simulated clock with an intrinsic oscillator
// error plus the frequency correction last set through adjtimex.
type KClock struct {
	C       *simclock.Clock
	R       *simcore.Run
	Node    *simcore.Node
	HwPPB   int64 // oscillator error, parts per billion
	AdjPPB  int64 // correction set by ADJ_FREQUENCY
	mu      sync.Mutex
	timers  map[int]*timer
	nextFd  int
	nsleeps int

	// record of what the driver asked the kernel to do (virtual instant, value)
	Offsets []Call
	Freqs   []Call
	// hooks for worlds
	OnSetOffset func(d time.Duration)
	OnSetFreq   func(ppb int64)
	OnSleep     func(until time.Time)
}

type Call struct {
	At  time.Time
	Val int64 // nanoseconds (offset) or parts per billion (frequency)
}

type timer struct {
	target time.Time // kernel clock reading at which the timer expires
	armed  bool
}

// Current is the kernel clock the interposed calls act on (one per run).
var Current *KClock

func New(r *simcore.Run, node *simcore.Node, c *simclock.Clock, hwPPB int64) *KClock {
	k := &KClock{C: c, R: r, Node: node, HwPPB: hwPPB, timers: map[int]*timer{}, nextFd: 1000}
	c.SetSkew(hwPPB)
	return k
}

func cur() *KClock {
	if Current == nil {
		panic("simkern: no kernel clock installed for this run")
	}
	return Current
}

func ClockGettime(clockid int32, ts *unix.Timespec) error {
	if clockid != unix.CLOCK_REALTIME {
		return unix.EINVAL
	}
	now := cur().C.Now()
	*ts = unix.NsecToTimespec(now.UnixNano())
	return nil
}

func ClockAdjtime(clockid int32, tx *unix.Timex) (int, error) {
	if clockid != unix.CLOCK_REALTIME {
		return 0, unix.EINVAL
	}
	k := cur()
	switch {
	case tx.Modes&unix.ADJ_SETOFFSET != 0:
		if tx.Modes&unix.ADJ_NANO == 0 {
			return 0, unix.EINVAL // the driver always passes nanoseconds
		}
		// the kernel demands a normalised value: 0 <= sub-second part < 10^9
		if tx.Time.Usec < 0 || tx.Time.Usec >= 1e9 {
			return 0, unix.EINVAL
		}
		d := time.Duration(tx.Time.Sec)*time.Second + time.Duration(tx.Time.Usec)
		k.mu.Lock()
		k.Offsets = append(k.Offsets, Call{time.Now(), int64(d)})
		k.mu.Unlock()
		k.R.Log("kern setoffset %d", int64(d))
		k.C.StepBy(d)
		if k.OnSetOffset != nil {
			k.OnSetOffset(d)
		}
	case tx.Modes&unix.ADJ_FREQUENCY != 0:
		// scaled ppm (2^-16 ppm units), limited to +-500 ppm by the kernel
		const maxFreq = 500 << 16
		f := tx.Freq
		if f > maxFreq {
			f = maxFreq
		}
		if f < -maxFreq {
			f = -maxFreq
		}
		ppb := f * 1000 / 65536
		k.mu.Lock()
		k.AdjPPB = ppb
		k.Freqs = append(k.Freqs, Call{time.Now(), ppb})
		k.mu.Unlock()
		k.R.Log("kern setfreq %d", ppb)
		k.C.SetSkew(k.HwPPB + ppb)
		if k.OnSetFreq != nil {
			k.OnSetFreq(ppb)
		}
	default:
		return 0, unix.EINVAL
	}
	return 0, nil
}

func TimerfdCreate(clockid int, flags int) (int, error) {
	if clockid != unix.CLOCK_REALTIME {
		return -1, unix.EINVAL
	}
	k := cur()
	k.mu.Lock()
	defer k.mu.Unlock()
	k.nextFd++
	k.timers[k.nextFd] = &timer{}
	return k.nextFd, nil
}

func TimerfdSettime(fd int, flags int, newValue *unix.ItimerSpec, oldValue *unix.ItimerSpec) error {
	k := cur()
	k.mu.Lock()
	defer k.mu.Unlock()
	t := k.timers[fd]
	if t == nil {
		return unix.EBADF
	}
	if flags&unix.TFD_TIMER_ABSTIME == 0 {
		return unix.EINVAL // the driver only uses absolute timers
	}
	t.target = time.Unix(newValue.Value.Unix()).UTC()
	t.armed = true
	return nil
}

// Poll blocks until the (single) timer descriptor is readable: the kernel clock has
// reached the timer's target. A clock that is set forward past the target makes the
// timer expire at once, one that is set back delays it - as for an absolute
// CLOCK_REALTIME timer without cancel-on-set.
func Poll(fds []unix.PollFd, timeout int) (int, error) {
	if len(fds) != 1 {
		return 0, unix.EINVAL
	}
	k := cur()
	k.mu.Lock()
	t := k.timers[int(fds[0].Fd)]
	k.nsleeps++
	n := k.nsleeps
	k.mu.Unlock()
	if t == nil || !t.armed {
		return 0, unix.EBADF
	}
	if k.OnSleep != nil {
		k.OnSleep(t.target)
	}
	for round := 0; ; round++ {
		now := k.C.Now()
		if !now.Before(t.target) {
			fds[0].Revents = unix.POLLIN
			return 1, nil
		}
		// virtual instant at which the clock, running as it does now, reaches the target
		at := k.C.InstantOf(t.target, time.Now())
		if !at.After(time.Now()) {
			at = time.Now().Add(time.Nanosecond)
		}
		op := &simcore.Op{ID: fmt.Sprintf("timerfd:%d:%d", n, round), Node: k.Node, Deadline: at, NoDelay: true,
			Ready: func() bool { return !k.C.Now().Before(t.target) }}
		if res := k.R.ParkOrExit(op); res.Killed {
			return 0, unix.EINTR
		}
	}
}

func Close(fd int) error {
	k := cur()
	k.mu.Lock()
	defer k.mu.Unlock()
	if _, ok := k.timers[fd]; !ok {
		return unix.EBADF
	}
	delete(k.timers, fd)
	return nil
}
