#!/bin/bash
# usage: confirm_seeded.sh <dir with patch.diff, demo/, meta.json> -> prints CONFIRMED/REJECTED <name> reason
# Confirms in a scratch worktree: demo passes on clean tree; with the patch: builds, the
# existing suite passes, the demo fails.
d=$1; name=$(basename $d)
export GOFLAGS=-mod=mod GOPROXY=off
wt=/tmp/confirm-$name
git -C /repo worktree remove --force $wt >/dev/null 2>&1
git -C /repo worktree add -q $wt HEAD || { echo "REJECTED $name worktree"; exit 1; }
trap "git -C /repo worktree remove --force $wt >/dev/null 2>&1" EXIT
cp -r $d/demo/. $wt/
cmd=$(python3 -c "import json;print(json.load(open('$d/meta.json'))['demo_cmd'])")
cd $wt
clean_out=$(eval "$cmd" 2>&1); clean_rc=$?
if [ $clean_rc -ne 0 ]; then echo "REJECTED $name demo fails on clean tree"; echo "$clean_out" | tail -5; exit 1; fi
git apply $d/patch.diff || { echo "REJECTED $name patch does not apply"; exit 1; }
go build ./... >/dev/null 2>&1 || { echo "REJECTED $name does not build"; exit 1; }
mut_out=$(eval "$cmd" 2>&1); mut_rc=$?
if [ $mut_rc -eq 0 ]; then echo "REJECTED $name demo passes with the change"; exit 1; fi
# the existing suite, without the demo files
find . -name 'seeded*_test.go' -delete
suite=$(go test -vet=off -count=1 ./... 2>&1); suite_rc=$?
if [ $suite_rc -ne 0 ]; then echo "REJECTED $name existing suite fails"; echo "$suite" | grep -v "^ok\|no test files" | tail -5; exit 1; fi
echo "CONFIRMED $name"
