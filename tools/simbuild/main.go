// simbuild prepares the build of the simulator binary from /repo's current
// working tree without changing a file in it: it writes rewritten copies of the
// files that touch the outside world (byte-spliced at AST positions, so line
// numbers are preserved), an overlay.json that substitutes them and adds the
// export shims from /verif/overlay, and a go.mod/go.sum pair for -modfile.
package main

import (
	"encoding/json"
	"flag"
	"fmt"
	"go/ast"
	"go/parser"
	"go/token"
	"os"
	"path/filepath"
	"sort"
	"strings"
)

type subst struct{ pkg, name, newPkg, newName string }

type fileRule struct {
	glob      string // relative to repo root
	substs    []subst
	yieldFns  []string          // function / method names whose statements get a Yield in front
	yieldRecv []string          // receiver type names: all their methods get yields
	renames   map[string]string // identifier uses (not definitions) renamed
	selectFns []string          // functions whose receive-only select statements become simsync.Select
}

var simnetImp = `simnet "verif.local/sim/simnet"`
var simsyncImp = `simsync "verif.local/sim/simsync"`
var simkernImp = `simkern "verif.local/sim/simkern"`

// the system clock driver's kernel interface
var kernSubsts = []subst{
	{"unix", "ClockGettime", "simkern", "ClockGettime"},
	{"unix", "ClockAdjtime", "simkern", "ClockAdjtime"},
	{"unix", "TimerfdCreate", "simkern", "TimerfdCreate"},
	{"unix", "TimerfdSettime", "simkern", "TimerfdSettime"},
	{"unix", "Poll", "simkern", "Poll"},
	{"unix", "Close", "simkern", "Close"},
	{"sync", "Mutex", "simsync", "Mutex"},
	{"sync", "RWMutex", "simsync", "RWMutex"},
}

var netSubsts = []subst{
	{"net", "UDPConn", "simnet", "UDPConn"},
	{"net", "ListenConfig", "simnet", "ListenConfig"},
	{"net", "ListenUDP", "simnet", "ListenUDP"},
	{"tls", "Listen", "simnet", "TLSListen"},
	{"tls", "DialWithDialer", "simnet", "TLSDialWithDialer"},
}

var unixSubsts = []subst{
	{"net", "UDPConn", "simnet", "UDPConn"},
	{"unix", "Poll", "simnet", "Poll"},
	{"unix", "Recvmsg", "simnet", "Recvmsg"},
	{"unix", "SetsockoptInt", "simnet", "SetsockoptInt"},
	{"unix", "Syscall", "simnet", "Syscall"},
}

var rules = []fileRule{
	{glob: "core/server/server.go",
		substs:    []subst{{"sync", "Mutex", "simsync", "Mutex"}, {"sync", "RWMutex", "simsync", "RWMutex"}},
		yieldFns:  []string{"handleRequest", "updateTXTimestamp"},
		yieldRecv: []string{"tssQueue"},
		renames:   map[string]string{"tssCap": "tssCapV"}},
	{glob: "core/server/*.go", substs: netSubsts},
	{glob: "core/server/server_scion.go", substs: []subst{{"scion", "NewDaemonConnector", "simnet", "NewDaemonConnector"}}},
	{glob: "core/client/*.go", substs: netSubsts},
	{glob: "core/client/client.go", selectFns: []string{"collectMeasurements"}, yieldRecv: []string{"ReferenceClockClient"}},
	{glob: "net/udp/*.go", substs: unixSubsts},
	{glob: "net/scion/quic.go", substs: netSubsts},
	{glob: "net/ntske/ntske_ip.go", substs: netSubsts},
	{glob: "core/sync/sync.go", substs: []subst{{"context", "WithTimeout", "simsync", "WithTimeout"}}},
	{glob: "driver/clocks/sysclk_linux.go", substs: kernSubsts, yieldRecv: []string{"SystemClock"}},
	{glob: "net/ntske/ntske.go",
		substs:   []subst{{"sync", "Mutex", "simsync", "Mutex"}, {"sync", "RWMutex", "simsync", "RWMutex"}},
		yieldFns: []string{"packsimple", "packheader"}},
	{glob: "net/ntske/provider.go",
		substs:    []subst{{"sync", "Mutex", "simsync", "Mutex"}, {"sync", "RWMutex", "simsync", "RWMutex"}},
		yieldRecv: []string{"Provider"}},
}

type splice struct {
	pos, end int // byte offsets; pos==end is an insertion
	text     string
	prio     int
}

func die(format string, a ...any) {
	fmt.Fprintf(os.Stderr, "simbuild: "+format+"\n", a...)
	os.Exit(2)
}

func main() {
	repo := flag.String("repo", "/repo", "repository root")
	verif := flag.String("verif", "/verif", "verification root")
	out := flag.String("out", "", "scratch output directory")
	flag.Parse()
	if *out == "" {
		die("-out required")
	}
	if err := os.MkdirAll(filepath.Join(*out, "ov"), 0o755); err != nil {
		die("%v", err)
	}
	overlay := map[string]string{}

	// 1. collect per-file rules (a file may match several globs: merge)
	type merged struct {
		substs    []subst
		yieldFns  map[string]bool
		yieldRecv map[string]bool
		renames   map[string]string
		selectFns map[string]bool
	}
	files := map[string]*merged{}
	for _, r := range rules {
		matches, err := filepath.Glob(filepath.Join(*repo, r.glob))
		if err != nil {
			die("%v", err)
		}
		for _, m := range matches {
			if strings.HasSuffix(m, "_test.go") || strings.HasSuffix(m, "_darwin.go") {
				continue
			}
			mg := files[m]
			if mg == nil {
				mg = &merged{yieldFns: map[string]bool{}, yieldRecv: map[string]bool{}, renames: map[string]string{}, selectFns: map[string]bool{}}
				files[m] = mg
			}
			mg.substs = append(mg.substs, r.substs...)
			for _, f := range r.yieldFns {
				mg.yieldFns[f] = true
			}
			for _, f := range r.yieldRecv {
				mg.yieldRecv[f] = true
			}
			for k, v := range r.renames {
				mg.renames[k] = v
			}
			for _, f := range r.selectFns {
				mg.selectFns[f] = true
			}
		}
	}
	names := make([]string, 0, len(files))
	for n := range files {
		names = append(names, n)
	}
	sort.Strings(names)

	for _, path := range names {
		mg := files[path]
		src, err := os.ReadFile(path)
		if err != nil {
			die("%v", err)
		}
		fset := token.NewFileSet()
		f, err := parser.ParseFile(fset, path, src, parser.ParseComments)
		if err != nil {
			die("parse %s: %v", path, err)
		}
		off := func(p token.Pos) int { return fset.Position(p).Offset }
		var sp []splice
		needSimnet, needSimsync, needSimkern := false, false, false
		// import names in this file
		impName := map[string]*ast.ImportSpec{}
		for _, is := range f.Imports {
			p := strings.Trim(is.Path.Value, `"`)
			name := filepath.Base(p)
			if is.Name != nil {
				name = is.Name.Name
			}
			impName[name] = is
		}
		used := map[string]int{}     // remaining uses per import name
		replaced := map[string]int{} // replaced uses
		ast.Inspect(f, func(n ast.Node) bool {
			se, ok := n.(*ast.SelectorExpr)
			if !ok {
				return true
			}
			id, ok := se.X.(*ast.Ident)
			if !ok || id.Obj != nil {
				return true
			}
			if _, isImp := impName[id.Name]; !isImp {
				return true
			}
			for _, s := range mg.substs {
				if id.Name == s.pkg && se.Sel.Name == s.name {
					sp = append(sp, splice{off(id.Pos()), off(se.Sel.End()), s.newPkg + "." + s.newName, 0})
					replaced[id.Name]++
					switch s.newPkg {
					case "simnet":
						needSimnet = true
					case "simkern":
						needSimkern = true
					default:
						needSimsync = true
					}
					return false
				}
			}
			used[id.Name]++
			return false
		})
		// identifier renames (uses only)
		if len(mg.renames) > 0 {
			defs := map[*ast.Ident]bool{}
			ast.Inspect(f, func(n ast.Node) bool {
				if vs, ok := n.(*ast.ValueSpec); ok {
					for _, nm := range vs.Names {
						defs[nm] = true
					}
				}
				return true
			})
			ast.Inspect(f, func(n ast.Node) bool {
				if id, ok := n.(*ast.Ident); ok && !defs[id] {
					if nn, ok := mg.renames[id.Name]; ok {
						sp = append(sp, splice{off(id.Pos()), off(id.End()), nn, 0})
					}
				}
				return true
			})
		}
		// yields
		nyield := 0
		for _, d := range f.Decls {
			fd, ok := d.(*ast.FuncDecl)
			if !ok || fd.Body == nil {
				continue
			}
			want := false
			if fd.Recv == nil {
				want = mg.yieldFns[fd.Name.Name]
			} else if len(fd.Recv.List) == 1 {
				t := fd.Recv.List[0].Type
				if st, ok := t.(*ast.StarExpr); ok {
					t = st.X
				}
				if id, ok := t.(*ast.Ident); ok {
					want = mg.yieldRecv[id.Name]
				}
			}
			if !want {
				continue
			}
			var visit func(list []ast.Stmt)
			visit = func(list []ast.Stmt) {
				for _, st := range list {
					// the "statements" of a switch or select body are its clauses: nothing can stand
					// in front of a clause, the yields go in front of the statements inside it
					switch cc := st.(type) {
					case *ast.CaseClause:
						visit(cc.Body)
						continue
					case *ast.CommClause:
						visit(cc.Body)
						continue
					}
					if _, isDefer := st.(*ast.DeferStmt); isDefer {
						// never separate `mu.Lock()` from its `defer mu.Unlock()`: a goroutine
						// unwound at a yield in between would leave the mutex locked
						continue
					}
					line := fset.Position(st.Pos()).Line
					site := fmt.Sprintf("%s:%d", filepath.Base(path), line)
					sp = append(sp, splice{off(st.Pos()), off(st.Pos()), fmt.Sprintf("simsync.Yield(%q); ", site), 1})
					nyield++
					ast.Inspect(st, func(n ast.Node) bool {
						switch b := n.(type) {
						case *ast.FuncLit:
							return false
						case *ast.BlockStmt:
							if b != nil {
								visit(b.List)
							}
							return false
						case *ast.CaseClause:
							visit(b.Body)
							return false
						case *ast.CommClause:
							visit(b.Body)
							return false
						}
						return true
					})
				}
			}
			visit(fd.Body.List)
		}
		// receive-only select statements -> switch on simsync.Select (the simulator
		// decides which ready case is taken; bodies stay byte-identical)
		nsel := 0
		for _, d := range f.Decls {
			fd, ok := d.(*ast.FuncDecl)
			if !ok || fd.Body == nil || fd.Recv != nil || !mg.selectFns[fd.Name.Name] {
				continue
			}
			ast.Inspect(fd.Body, func(n ast.Node) bool {
				ss, ok := n.(*ast.SelectStmt)
				if !ok {
					return true
				}
				type cse struct {
					cc   *ast.CommClause
					ch   string
					head string
				}
				var cases []cse
				okAll := true
				for i, c := range ss.Body.List {
					cc := c.(*ast.CommClause)
					var ue *ast.UnaryExpr
					var lhs []ast.Expr
					tok := ""
					switch st := cc.Comm.(type) {
					case *ast.ExprStmt:
						ue, _ = st.X.(*ast.UnaryExpr)
					case *ast.AssignStmt:
						if len(st.Rhs) == 1 {
							ue, _ = st.Rhs[0].(*ast.UnaryExpr)
						}
						lhs = st.Lhs
						tok = st.Tok.String()
					}
					if ue == nil || ue.Op != token.ARROW {
						okAll = false
						break
					}
					ch := string(src[off(ue.X.Pos()):off(ue.X.End())])
					head := fmt.Sprintf("case %d:", i)
					if len(lhs) == 1 {
						head += fmt.Sprintf(" %s %s simsync.SelVal(__sel%d, %s);", string(src[off(lhs[0].Pos()):off(lhs[0].End())]), tok, nsel, ch)
					} else if len(lhs) == 2 {
						head += fmt.Sprintf(" %s, %s %s simsync.SelVal2(__sel%d, %s);", string(src[off(lhs[0].Pos()):off(lhs[0].End())]),
							string(src[off(lhs[1].Pos()):off(lhs[1].End())]), tok, nsel, ch)
					}
					cases = append(cases, cse{cc, ch, head})
				}
				if !okAll || len(cases) == 0 {
					return true
				}
				line := fset.Position(ss.Pos()).Line
				site := fmt.Sprintf("%s:%d", filepath.Base(path), line)
				var chs []string
				for _, c := range cases {
					chs = append(chs, c.ch)
				}
				hdr := fmt.Sprintf("switch __sel%d := simsync.Select(%q, %s); __sel%d.I {", nsel, site, strings.Join(chs, ", "), nsel)
				sp = append(sp, splice{off(ss.Pos()), off(ss.Body.Lbrace) + 1, hdr, 0})
				for _, c := range cases {
					sp = append(sp, splice{off(c.cc.Pos()), off(c.cc.Colon) + 1, c.head, 0})
				}
				nsel++
				return true
			})
		}
		if nsel > 0 {
			needSimsync = true
		}
		if nyield > 0 {
			needSimsync = true
		}
		if len(sp) == 0 {
			continue
		}
		// imports: add ours on the package line; blank out imports that became unused
		var add []string
		if needSimnet {
			add = append(add, "import "+simnetImp)
		}
		if needSimsync {
			add = append(add, "import "+simsyncImp)
		}
		if needSimkern {
			add = append(add, "import "+simkernImp)
		}
		if len(add) > 0 {
			e := off(f.Name.End())
			sp = append(sp, splice{e, e, "; " + strings.Join(add, "; "), 0})
		}
		for name, is := range impName {
			if replaced[name] > 0 && used[name] == 0 && is.Name == nil {
				p := off(is.Path.Pos())
				sp = append(sp, splice{p, p, "_ ", 0})
			}
		}
		// apply splices back to front
		sort.Slice(sp, func(i, j int) bool {
			if sp[i].pos != sp[j].pos {
				return sp[i].pos > sp[j].pos
			}
			return sp[i].prio > sp[j].prio
		})
		res := src
		for _, s := range sp {
			res = append(append(append([]byte{}, res[:s.pos]...), s.text...), res[s.end:]...)
		}
		rel, _ := filepath.Rel(*repo, path)
		dst := filepath.Join(*out, "ov", rel)
		os.MkdirAll(filepath.Dir(dst), 0o755)
		if err := os.WriteFile(dst, res, 0o644); err != nil {
			die("%v", err)
		}
		overlay[path] = dst
	}

	// 2. added files from /verif/overlay (mirrors the repository layout)
	ovRoot := filepath.Join(*verif, "overlay")
	filepath.Walk(ovRoot, func(p string, info os.FileInfo, err error) error {
		if err != nil || info.IsDir() || !strings.HasSuffix(p, ".go") {
			return nil
		}
		rel, _ := filepath.Rel(ovRoot, p)
		overlay[filepath.Join(*repo, rel)] = p
		return nil
	})
	oj, _ := json.MarshalIndent(map[string]any{"Replace": overlay}, "", " ")
	if err := os.WriteFile(filepath.Join(*out, "overlay.json"), oj, 0o644); err != nil {
		die("%v", err)
	}

	// 3. go.mod / go.sum for -modfile
	gomod, err := os.ReadFile(filepath.Join(*repo, "go.mod"))
	if err != nil {
		die("%v", err)
	}
	extra := fmt.Sprintf("\nrequire verif.local/sim v0.0.0\nrequire github.com/anishathalye/porcupine v1.3.0\nreplace verif.local/sim => %s\n",
		filepath.Join(*verif, "sim"))
	if err := os.WriteFile(filepath.Join(*out, "go.mod"), append(gomod, extra...), 0o644); err != nil {
		die("%v", err)
	}
	gosum, err := os.ReadFile(filepath.Join(*repo, "go.sum"))
	if err != nil {
		die("%v", err)
	}
	if err := os.WriteFile(filepath.Join(*out, "go.sum"), gosum, 0o644); err != nil {
		die("%v", err)
	}
	fmt.Printf("simbuild: %d files rewritten, %d overlay entries\n", len(names), len(overlay))
}
