module verif.local/simbuild

go 1.24
