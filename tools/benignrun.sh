#!/bin/bash
# usage: benignrun.sh <patch.diff> [workers]
# Applies a behaviour-preserving change to a scratch worktree of /repo and runs every
# claimed quick check (or those named in BENIGN_CHECKS) against it: every check must exit 0 (anything else is a false alarm
# or build fragility of the machinery). The worktree is removed afterwards.
patch=$1; workers=${2:-16}
name=$(basename $(dirname $patch))
wt=/var/tmp/benign-$name-$$
git -C /repo worktree add -q $wt HEAD || exit 2
trap "git -C /repo worktree remove --force $wt >/dev/null 2>&1" EXIT
git -C $wt apply $patch || { echo "BENIGN $name: patch does not apply"; exit 2; }
cd ${VERIF_SNAP:-/verif}
bad=0
for p in ${BENIGN_CHECKS:-$(python3 -c "import json;print(' '.join(c['property_id'] for c in json.load(open('MANIFEST.json'))['checks']))")}; do
  out=$(VERIF_REPO=$wt VERIF_NO_EVIDENCE=1 ./check $p --workers $workers 2>&1); rc=$?
  if [ $rc -ne 0 ]; then
    bad=1
    echo "BENIGN $name: ./check $p exit=$rc"
    echo "$out" | grep "^violation\|^VIOLATION\|TROUBLE\|STARV\|error" | head -6 | cut -c1-300
  fi
done
[ $bad -eq 0 ] && echo "BENIGN $name: all checks pass"
exit $bad
