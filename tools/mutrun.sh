#!/bin/bash
# usage: mutrun.sh <patch.diff> <prop> [check args...]
# Applies a seeded change to the repository under test, runs ./check, and always reverts.
# MUT_REPO (default /repo) names the tree the change is applied to - a scratch worktree
# lets this run beside other work; MUT_VERIF (default: this script's tree) names the
# /verif tree whose check is run.
set -u
patch=$1; prop=$2; shift 2
repo=${MUT_REPO:-/repo}
verif=${MUT_VERIF:-$(cd "$(dirname "$0")/.." && pwd)}
cd "$repo" || exit 2
if ! git diff --quiet; then echo "repo not clean"; exit 2; fi
git apply "$patch" || { echo "patch does not apply"; exit 2; }
cd "$verif"
VERIF_REPO=$repo VERIF_NO_EVIDENCE=1 ./check "$prop" "$@" 2>&1 | tail -12
rc=${PIPESTATUS[0]}
git -C "$repo" checkout -- .
echo "mutrun exit=$rc"
exit $rc
