#!/bin/bash
# usage: mutrun.sh <patch.diff> <prop> [check args...]
# Applies a seeded change to /repo, runs ./check, and always reverts.
set -u
patch=$1; prop=$2; shift 2
cd /repo || exit 2
if ! git diff --quiet; then echo "repo not clean"; exit 2; fi
git apply "$patch" || { echo "patch does not apply"; exit 2; }
cd /verif
VERIF_NO_EVIDENCE=1 ./check "$prop" "$@" 2>&1 | tail -12
rc=${PIPESTATUS[0]}
git -C /repo checkout -- .
echo "mutrun exit=$rc"
exit $rc
