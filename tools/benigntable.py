#!/usr/bin/env python3
"""Rebuilds the table of behaviour-preserving changes in DESIGN.md from benign/*/meta.json and benign/RESULTS.txt."""
import json, os, re
root = os.path.dirname(os.path.dirname(os.path.abspath(__file__)))
res = {}
for l in open(os.path.join(root, "benign", "RESULTS.txt")):
    m = re.match(r"BENIGN (\S+): (.*)", l.strip())
    if m:
        res.setdefault(m.group(1), []).append(m.group(2))
rows = ["| change | what it does | result |", "|---|---|---|"]
for d in sorted(os.listdir(os.path.join(root, "benign"))):
    mp = os.path.join(root, "benign", d, "meta.json")
    if not os.path.exists(mp):
        continue
    m = json.load(open(mp))
    what = (m.get("summary") or m.get("description") or "").replace("\n", " ").replace("|", "/")
    what = what[:150] + ("..." if len(what) > 150 else "")
    if m.get("obsolete"):
        r = "obsolete, not run: " + str(m["obsolete"])
    else:
        rr = res.get(d, ["not run"])
        r = "all 17 quick checks build and pass" if rr == ["all checks pass"] else "; ".join(rr)
    rows.append("| %s | %s | %s |" % (d, what, r))
p = os.path.join(root, "DESIGN.md")
s = open(p).read()
a, b = "<!-- benign-table-begin -->", "<!-- benign-table-end -->"
i, j = s.index(a) + len(a), s.index(b)
open(p, "w").write(s[:i] + "\n" + "\n".join(rows) + "\n" + s[j:])
print(len(rows) - 2, "rows")
