#!/usr/bin/env python3
"""Generates /verif/MANIFEST.json from props.py (claimed checks) and the not-applicable list."""
import json, os, sys
VERIF = os.path.dirname(os.path.dirname(os.path.abspath(__file__)))
sys.path.insert(0, VERIF)
from props import PROPS, NOT_APPLICABLE, NOT_YET

checks = []
for pid in sorted(PROPS):
    c = PROPS[pid]
    checks.append({
        "property_id": pid,
        "quick_cmd": "./check %s --tier quick" % pid,
        "thorough_cmd": "./check %s --tier thorough" % pid,
        "evidence_file": "/verif/evidence/%s.json" % pid,
        "replay_cmd_template": "./check %s --replay {path}" % pid,
        "engine": "sim",
        "level_claimed": {"category": c["level"], "text": c["level_text"], "design_ref": c.get("design_ref", "DESIGN.md section 3, " + pid)},
        "level_note": c["level_note"],
        "technique": c.get("technique", "deterministic simulation with fault injection (seeded schedule/fault search, per-step invariants and history checks)"),
    })
na = [{"property_id": k, "reason": v} for k, v in sorted(NOT_APPLICABLE.items())]
na += [{"property_id": k, "reason": v} for k, v in sorted(NOT_YET.items()) if k not in PROPS]
m = {
    "version": 1,
    "setup_cmd": "./setup.sh",
    "hooks": {
        "guard": "verif",
        "enable": "no hook is committed to /repo: every check builds the simulator from /repo's working tree with `go test -c -tags verif,verif_h_*,verif_o_* -overlay=<scratch>/overlay.json -modfile=<scratch>/go.mod .` (GOTOOLCHAIN=local go1.26.8); tools/simbuild writes the overlay (seam substitutions spliced at AST positions + export shims from /verif/overlay; the verif_h_* / verif_o_* tags select optional wiring hooks and exports of the overlay, each dropped with a BUILD-NOTE when the tree does not offer the shape it needs)",
        "baseline_off_cmd": "for m in $(cat /w/out/gomods.txt); do MF=$(cd /repo/$m && . /w/out/goenv.sh && gomodflag); (cd /repo/$m && go test $MF -json -vet=off -count=1 -timeout 25m ./...); done",
        "source_commits": [],
        "add_only": True,
    },
    "engines": [{"name": "sim", "path": "/verif/sim", "serves_properties": sorted(PROPS),
                 "kind_free_text": "deterministic simulator: testing/synctest bubble (virtual time, quiescence) + seeded choice tape + release-one-pending-operation scheduler + simulated UDP/TLS network, clocks and mutex; real repository code on top"}],
    "checks": checks,
    "not_applicable": na,
    "notes": "exit 0 = held on everything explored (KNOWN-FINDING lines allowed); exit 1 = VIOLATION line printed; exit 2 = build/harness/determinism/probe-starvation/watchdog trouble, never a violation. VERIF_SEED selects the base seed.",
}
json.dump(m, open(os.path.join(VERIF, "MANIFEST.json"), "w"), indent=1)
print("MANIFEST.json: %d checks, %d not claimed" % (len(checks), len(na)))
