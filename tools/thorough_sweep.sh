#!/bin/bash
# Runs the thorough tier of every claimed check, one after the other, with the given seed.
# usage: thorough_sweep.sh <seed> [workers]
seed=${1:-2}; workers=${2:-10}
cd "$(dirname "$0")/.."
./setup.sh >/dev/null 2>&1
for p in $(python3 -c "import json;print(' '.join(c['property_id'] for c in json.load(open('MANIFEST.json'))['checks']))"); do
  echo "=== $p seed=$seed $(date +%H:%M:%S)"
  VERIF_NO_EVIDENCE=1 VERIF_SEED=$seed ./check $p --tier thorough --workers $workers 2>&1 | grep "thorough:\|^violation\|^VIOLATION\|KNOWN\|TROUBLE\|STARVATION" | cut -c1-260
  echo "exit=$?"
done
