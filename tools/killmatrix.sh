#!/bin/bash
# Runs every seeded change under /verif/seeded against the quick check of the property it
# breaks (and, with extra args "<dir> <prop>", against another property's check).
# Output: one line per change: KILLED/MISSED <change> by <check> [signature]
# KM_MATCH (a grep -E pattern on change names) restricts the run to part of the set.
# MUT_REPO / MUT_VERIF (see mutrun.sh) let it run on a scratch worktree and a snapshot of /verif.
verif=${MUT_VERIF:-/verif}
cd $verif
out=${KM_OUT:-/verif/seeded/KILLMATRIX.txt}
: > "$out.tmp"
for d in $verif/seeded/*/; do
  n=$(basename "$d")
  [ -f "$d/patch.diff" ] || continue
  if [ -n "${KM_MATCH:-}" ] && ! echo "$n" | grep -qE "$KM_MATCH"; then continue; fi
  if python3 -c "import json,sys;sys.exit(0 if json.load(open('$d/meta.json')).get('superseded') else 1)"; then
    echo "SUPERSEDED $n (see its meta.json)" >> "$out.tmp"; continue
  fi
  prop=$(python3 -c "import json;print(json.load(open('$d/meta.json'))['property'])")
  checks="$prop"
  extra=$(python3 -c "import json;print(' '.join(json.load(open('$d/meta.json')).get('also_run',[])))")
  for c in $checks $extra; do
    res=$(VERIF_NO_EVIDENCE=1 tools/mutrun.sh "$d/patch.diff" "$c" 2>&1)
    rc=$(echo "$res" | grep -o "mutrun exit=[0-9]*" | cut -d= -f2)
    sig=$(echo "$res" | grep "^violation " | head -2 | tr '\n' ';')
    if [ "$rc" = "1" ]; then echo "KILLED $n by ./check $c  [$sig]" >> "$out.tmp";
    elif [ "$rc" = "0" ]; then echo "MISSED $n by ./check $c" >> "$out.tmp";
    else echo "TROUBLE($rc) $n by ./check $c: $(echo "$res" | tail -2 | tr '\n' ' ')" >> "$out.tmp"; fi
  done
done
mv "$out.tmp" "$out"
cat "$out"
