#!/bin/bash
# Builds the tools and warms the Go build cache (offline).
set -e
cd "$(dirname "$0")"
export GOFLAGS=-mod=mod GOPROXY=off GOSUMDB=off GOTOOLCHAIN=local CGO_ENABLED=0
mkdir -p bin evidence replays
(cd tools/simbuild && go1.26.8 build -o ../../bin/simbuild .)
# warm: build the simulator once
scratch=$(mktemp -d "${TMPDIR:-/var/tmp}/verif-setup-XXXXXX")
trap 'rm -rf "$scratch"' EXIT
./bin/simbuild -repo "${VERIF_REPO:-/repo}" -verif "$(pwd)" -out "$scratch" >/dev/null
(cd "${VERIF_REPO:-/repo}" && go1.26.8 test -c -o "$scratch/sim.test" -modfile="$scratch/go.mod" -overlay="$scratch/overlay.json" -tags verif -vet=off . )
echo "setup ok"
